//! sozu-facts: rustc_private driver that dumps MIR facts (CFG, resolved callees,
//! named field projections, discriminant switches, constants), ADT definitions,
//! impl tables and evaluated consts of the crate being compiled, as JSON lines.
//! Injected through RUSTC_WORKSPACE_WRAPPER; compilation continues normally.
#![feature(rustc_private)]
#![allow(clippy::all)]

extern crate rustc_abi;
extern crate rustc_driver;
extern crate rustc_hir;
extern crate rustc_interface;
extern crate rustc_middle;
extern crate rustc_span;

use rustc_driver::{Callbacks, Compilation};
use rustc_hir as hir;
use rustc_hir::def::DefKind;
use rustc_hir::def_id::{DefId, LOCAL_CRATE};
use rustc_middle::mir::{
    self, AggregateKind, BasicBlock, Body, Operand, Place, PlaceElem, Rvalue, StatementKind,
    TerminatorKind,
};
use rustc_middle::mir::PlaceTy;
use rustc_middle::ty::{self, Instance, Ty, TyCtxt, TypingEnv};
use rustc_span::Span;
use std::fmt::Write as _;

fn esc(s: &str) -> String {
    let mut o = String::with_capacity(s.len() + 2);
    o.push('"');
    for c in s.chars() {
        match c {
            '"' => o.push_str("\\\""),
            '\\' => o.push_str("\\\\"),
            '\n' => o.push_str("\\n"),
            '\r' => o.push_str("\\r"),
            '\t' => o.push_str("\\t"),
            c if (c as u32) < 0x20 => {
                let _ = write!(o, "\\u{:04x}", c as u32);
            }
            c => o.push(c),
        }
    }
    o.push('"');
    o
}

struct Cx<'tcx> {
    tcx: TyCtxt<'tcx>,
}

impl<'tcx> Cx<'tcx> {
    fn fix(&self, s: String) -> String {
        if s.contains("crate::") {
            let name = format!("{}::", self.tcx.crate_name(LOCAL_CRATE));
            s.replace("crate::", &name)
        } else {
            s
        }
    }

    fn path(&self, did: DefId) -> String {
        // crate-qualified, untrimmed path: "<crate>::a::b", "<krate::T as Trait>::m"
        let p = ty::print::with_no_visible_paths!(ty::print::with_crate_prefix!(
            ty::print::with_no_trimmed_paths!(self.tcx.def_path_str(did))
        ));
        self.fix(p)
    }

    fn ty_s(&self, t: Ty<'tcx>) -> String {
        let p = ty::print::with_no_visible_paths!(ty::print::with_crate_prefix!(
            ty::print::with_no_trimmed_paths!(t.to_string())
        ));
        self.fix(p)
    }

    fn loc(&self, span: Span) -> (String, usize) {
        let sp = span.source_callsite();
        let sm = self.tcx.sess.source_map();
        let lo = sm.lookup_char_pos(sp.lo());
        let name = match &lo.file.name {
            rustc_span::FileName::Real(r) => match r.local_path() {
                Some(p) => p.to_string_lossy().to_string(),
                None => format!("{:?}", r),
            },
            other => format!("{:?}", other),
        };
        (name, lo.line)
    }

    fn macros(&self, span: Span) -> String {
        let mut v: Vec<String> = Vec::new();
        for ed in span.macro_backtrace() {
            if let rustc_span::ExpnKind::Macro(_, name) = ed.kind {
                v.push(name.to_string());
            } else {
                v.push(format!("{:?}", ed.kind).split('(').next().unwrap_or("").to_string());
            }
        }
        v.join(">")
    }

    fn place(&self, body: &Body<'tcx>, place: &Place<'tcx>) -> String {
        if place.projection.is_empty() {
            return format!("{}", place.local.as_u32());
        }
        let mut pty = PlaceTy::from_ty(body.local_decls[place.local].ty);
        let mut projs: Vec<String> = Vec::new();
        for elem in place.projection.iter() {
            let s = match elem {
                PlaceElem::Deref => "*".to_string(),
                PlaceElem::Field(f, _) => match pty.ty.kind() {
                    ty::Adt(adt, _) => {
                        let v = pty.variant_index.unwrap_or(rustc_abi::FIRST_VARIANT);
                        let vd = adt.variant(v);
                        let fname = vd.fields[f].name.to_string();
                        format!("f|{}|{}|{}", self.path(adt.did()), vd.name, fname)
                    }
                    ty::Closure(did, _) => format!("u|{}|{}", self.path(*did), f.as_u32()),
                    _ => format!("t|{}", f.as_u32()),
                },
                PlaceElem::Index(l) => format!("i|{}", l.as_u32()),
                PlaceElem::ConstantIndex { offset, from_end, .. } => {
                    format!("ci|{}|{}", offset, from_end as u8)
                }
                PlaceElem::Subslice { from, to, from_end } => {
                    format!("ss|{}|{}|{}", from, to, from_end as u8)
                }
                PlaceElem::Downcast(name, v) => match name {
                    Some(n) => format!("d|{}", n),
                    None => format!("d|#{}", v.as_u32()),
                },
                _ => "o".to_string(),
            };
            projs.push(esc(&s));
            pty = pty.projection_ty(self.tcx, elem);
        }
        format!("{{\"l\":{},\"p\":[{}]}}", place.local.as_u32(), projs.join(","))
    }

    fn operand(&self, body: &Body<'tcx>, tenv: TypingEnv<'tcx>, op: &Operand<'tcx>) -> String {
        match op {
            Operand::Copy(p) => format!("{{\"cp\":{}}}", self.place(body, p)),
            Operand::Move(p) => format!("{{\"mv\":{}}}", self.place(body, p)),
            Operand::Constant(c) => {
                let t = c.const_.ty();
                let mut s = String::from("{");
                let disp = self.fix(ty::print::with_no_visible_paths!(ty::print::with_crate_prefix!(
                    ty::print::with_no_trimmed_paths!(format!("{}", c.const_))
                )));
                let disp = if disp.len() > 200 { disp[..disp.char_indices().nth(200).map(|x| x.0).unwrap_or(disp.len())].to_string() } else { disp };
                let _ = write!(s, "\"c\":{}", esc(&disp));
                let _ = write!(s, ",\"ty\":{}", esc(&self.ty_s(t)));
                if let ty::FnDef(did, _) = t.kind() {
                    let _ = write!(s, ",\"fn\":{}", esc(&self.path(*did)));
                }
                if let mir::Const::Unevaluated(uv, _) = c.const_ {
                    if let Some(p) = uv.promoted {
                        let _ = write!(s, ",\"promoted\":{}", p.as_u32());
                    } else {
                        let _ = write!(s, ",\"constdef\":{}", esc(&self.path(uv.def)));
                    }
                }
                if t.is_integral() || t.is_bool() || t.is_char() {
                    if let Some(si) = c.const_.try_eval_scalar_int(self.tcx, tenv) {
                        let bits = si.to_bits(si.size());
                        let _ = write!(s, ",\"v\":{}", esc(&bits.to_string()));
                    }
                }
                s.push('}');
                s
            }
            _ => "{\"c\":\"<runtime-check>\",\"ty\":\"bool\"}".to_string(),
        }
    }

    fn rvalue(&self, body: &Body<'tcx>, tenv: TypingEnv<'tcx>, rv: &Rvalue<'tcx>) -> String {
        match rv {
            Rvalue::Use(op, ..) => format!("{{\"k\":\"use\",\"a\":{}}}", self.operand(body, tenv, op)),
            Rvalue::Repeat(op, _) => {
                format!("{{\"k\":\"repeat\",\"a\":{}}}", self.operand(body, tenv, op))
            }
            Rvalue::Ref(_, bk, p) => {
                let m = matches!(bk, mir::BorrowKind::Mut { .. });
                format!("{{\"k\":\"ref\",\"m\":{},\"pl\":{}}}", m, self.place(body, p))
            }
            Rvalue::RawPtr(k, p) => {
                let m = format!("{:?}", k).contains("Mut");
                format!("{{\"k\":\"raw\",\"m\":{},\"pl\":{}}}", m, self.place(body, p))
            }
            Rvalue::ThreadLocalRef(d) => format!("{{\"k\":\"tls\",\"d\":{}}}", esc(&self.path(*d))),
            Rvalue::Cast(kind, op, t) => format!(
                "{{\"k\":\"cast\",\"ck\":{},\"a\":{},\"ty\":{}}}",
                esc(&format!("{:?}", kind).split('(').next().unwrap_or("").to_string()),
                self.operand(body, tenv, op),
                esc(&self.ty_s(*t))
            ),
            Rvalue::BinaryOp(op, ab) => format!(
                "{{\"k\":\"bin\",\"op\":{},\"a\":{},\"b\":{}}}",
                esc(&format!("{:?}", op)),
                self.operand(body, tenv, &ab.0),
                self.operand(body, tenv, &ab.1)
            ),
            Rvalue::UnaryOp(op, a) => format!(
                "{{\"k\":\"un\",\"op\":{},\"a\":{}}}",
                esc(&format!("{:?}", op)),
                self.operand(body, tenv, a)
            ),
            Rvalue::Discriminant(p) => {
                let pt = p.ty(&body.local_decls, self.tcx).ty;
                let adt = match pt.kind() {
                    ty::Adt(a, _) => self.path(a.did()),
                    _ => String::new(),
                };
                format!(
                    "{{\"k\":\"discr\",\"pl\":{},\"adt\":{},\"ty\":{}}}",
                    self.place(body, p),
                    esc(&adt),
                    esc(&self.ty_s(pt))
                )
            }
            Rvalue::Aggregate(kind, ops) => {
                let opsj: Vec<String> = ops.iter().map(|o| self.operand(body, tenv, o)).collect();
                let head = match &**kind {
                    AggregateKind::Array(_) => "\"ak\":\"array\"".to_string(),
                    AggregateKind::Tuple => "\"ak\":\"tuple\"".to_string(),
                    AggregateKind::Adt(did, v, _, _, _) => {
                        let adt = self.tcx.adt_def(*did);
                        let vd = adt.variant(*v);
                        let fnames: Vec<String> =
                            vd.fields.iter().map(|f| esc(&f.name.to_string())).collect();
                        format!(
                            "\"ak\":\"adt\",\"adt\":{},\"var\":{},\"vi\":{},\"fn\":[{}]",
                            esc(&self.path(*did)),
                            esc(&vd.name.to_string()),
                            v.as_u32(),
                            fnames.join(",")
                        )
                    }
                    AggregateKind::Closure(did, _) => {
                        format!("\"ak\":\"closure\",\"clo\":{}", esc(&self.path(*did)))
                    }
                    AggregateKind::Coroutine(did, _) | AggregateKind::CoroutineClosure(did, _) => {
                        format!("\"ak\":\"coroutine\",\"clo\":{}", esc(&self.path(*did)))
                    }
                    AggregateKind::RawPtr(..) => "\"ak\":\"rawptr\"".to_string(),
                };
                format!("{{\"k\":\"agg\",{},\"ops\":[{}]}}", head, opsj.join(","))
            }
            Rvalue::CopyForDeref(p) => {
                format!("{{\"k\":\"use\",\"a\":{{\"cp\":{}}}}}", self.place(body, p))
            }
            Rvalue::WrapUnsafeBinder(op, _) => {
                format!("{{\"k\":\"use\",\"a\":{}}}", self.operand(body, tenv, op))
            }
        }
    }

    fn body(&self, did: DefId, out: &mut String) {
        let tcx = self.tcx;
        let body: &Body<'tcx> = tcx.optimized_mir(did);
        self.body_rec(did, body, None, out);
        for (pi, pb) in tcx.promoted_mir(did).iter_enumerated() {
            self.body_rec(did, pb, Some(pi.as_u32()), out);
        }
    }

    fn body_rec(&self, did: DefId, body: &Body<'tcx>, promoted: Option<u32>, out: &mut String) {
        let tcx = self.tcx;
        let kind = tcx.def_kind(did);
        let tenv = TypingEnv::post_analysis(tcx, did);
        let (file, line) = self.loc(body.span);
        let path = match promoted {
            Some(i) => format!("{}::{{promoted#{}}}", self.path(did), i),
            None => self.path(did),
        };
        let _ = write!(
            out,
            "{{\"rec\":\"{}\",\"path\":{},\"kind\":{},\"file\":{},\"line\":{},\"x\":{},\"argc\":{}",
            if promoted.is_some() { "promoted" } else if matches!(kind, DefKind::Const { .. } | DefKind::AssocConst { .. }) { "constbody" } else { "body" },
            esc(&path),
            esc(&format!("{:?}", kind)),
            esc(&file),
            line,
            body.span.from_expansion(),
            body.arg_count
        );
        if promoted.is_some() || matches!(kind, DefKind::Const { .. } | DefKind::AssocConst { .. }) {
        } else if matches!(kind, DefKind::Closure) {
            let parent = tcx.typeck_root_def_id(did);
            let _ = write!(out, ",\"root\":{}", esc(&self.path(parent)));
            let _ = write!(out, ",\"parent\":{}", esc(&self.path(tcx.parent(did))));
        } else {
            let vis = tcx.visibility(did);
            let _ = write!(out, ",\"pub\":{}", vis.is_public());
            // impl-of / trait-of info
            if let Some(impl_did) = tcx.impl_of_assoc(did) {
                let self_ty = tcx.type_of(impl_did).instantiate_identity().skip_norm_wip();
                let _ = write!(out, ",\"self_ty\":{}", esc(&self.ty_s(self_ty)));
                if let Some(tr) = tcx.impl_opt_trait_ref(impl_did) {
                    let tr = tr.instantiate_identity().skip_norm_wip();
                    let _ = write!(out, ",\"trait\":{}", esc(&self.path(tr.def_id)));
                }
            }
            let attrs_derived = tcx.is_automatically_derived(tcx.parent(did));
            let _ = write!(out, ",\"derived\":{}", attrs_derived);
        }
        // locals
        out.push_str(",\"locals\":[");
        for (i, d) in body.local_decls.iter().enumerate() {
            if i > 0 {
                out.push(',');
            }
            out.push_str(&esc(&self.ty_s(d.ty)));
        }
        out.push_str("],\"names\":[");
        let mut first = true;
        for v in body.var_debug_info.iter() {
            if let mir::VarDebugInfoContents::Place(p) = &v.value {
                if !first {
                    out.push(',');
                }
                first = false;
                let _ = write!(out, "[{},{}]", esc(&v.name.to_string()), self.place(body, p));
            }
        }
        out.push_str("],\"blocks\":[");
        for (bi, bb) in body.basic_blocks.iter_enumerated() {
            if bi.as_u32() > 0 {
                out.push(',');
            }
            let _ = write!(out, "{{\"cl\":{},\"s\":[", bb.is_cleanup);
            let mut firsts = true;
            for st in bb.statements.iter() {
                let js = match &st.kind {
                    StatementKind::Assign(b) => {
                        let (p, rv) = &**b;
                        Some(format!(
                            "{{\"lhs\":{},\"rv\":{},\"ln\":{}}}",
                            self.place(body, p),
                            self.rvalue(body, tenv, rv),
                            self.loc(st.source_info.span).1
                        ))
                    }
                    StatementKind::SetDiscriminant { place, variant_index } => Some(format!(
                        "{{\"setd\":{},\"vi\":{},\"ln\":{}}}",
                        self.place(body, place),
                        variant_index.as_u32(),
                        self.loc(st.source_info.span).1
                    )),
                    _ => None,
                };
                if let Some(js) = js {
                    if !firsts {
                        out.push(',');
                    }
                    firsts = false;
                    out.push_str(&js);
                }
            }
            out.push_str("],\"t\":");
            let term = bb.terminator();
            let tl = self.loc(term.source_info.span).1;
            let tx = term.source_info.span.from_expansion();
            let bbn = |b: &BasicBlock| b.as_u32();
            match &term.kind {
                TerminatorKind::Goto { target } => {
                    let _ = write!(out, "{{\"k\":\"goto\",\"to\":{}}}", bbn(target));
                }
                TerminatorKind::SwitchInt { discr, targets } => {
                    let mut ts: Vec<String> = Vec::new();
                    for (v, t) in targets.iter() {
                        ts.push(format!("[{},{}]", esc(&v.to_string()), bbn(&t)));
                    }
                    let _ = write!(
                        out,
                        "{{\"k\":\"switch\",\"op\":{},\"ts\":[{}],\"else\":{},\"ln\":{}}}",
                        self.operand(body, tenv, discr),
                        ts.join(","),
                        bbn(&targets.otherwise()),
                        tl
                    );
                }
                TerminatorKind::Return => out.push_str("{\"k\":\"ret\"}"),
                TerminatorKind::Unreachable => out.push_str("{\"k\":\"unreachable\"}"),
                TerminatorKind::UnwindResume => out.push_str("{\"k\":\"resume\"}"),
                TerminatorKind::UnwindTerminate(_) => out.push_str("{\"k\":\"abort\"}"),
                TerminatorKind::Drop { place, target, .. } => {
                    let _ = write!(
                        out,
                        "{{\"k\":\"drop\",\"pl\":{},\"to\":{},\"ln\":{}}}",
                        self.place(body, place),
                        bbn(target),
                        tl
                    );
                }
                TerminatorKind::Assert { cond, expected, msg, target, .. } => {
                    let mk = format!("{:?}", msg);
                    let mk = mk.split(|c| c == '(' || c == ' ' || c == '{').next().unwrap_or("").to_string();
                    let _ = write!(
                        out,
                        "{{\"k\":\"assert\",\"cond\":{},\"exp\":{},\"msg\":{},\"to\":{},\"ln\":{},\"x\":{}}}",
                        self.operand(body, tenv, cond),
                        expected,
                        esc(&mk),
                        bbn(target),
                        tl,
                        tx
                    );
                }
                TerminatorKind::Call { func, args, .. }
                | TerminatorKind::TailCall { func, args, .. } => {
                    let (destination, target): (Option<&Place<'tcx>>, Option<BasicBlock>) =
                        match &term.kind {
                            TerminatorKind::Call { destination, target, .. } => {
                                (Some(destination), *target)
                            }
                            _ => (None, None),
                        };
                    let _ = (func, args);
                    let fty = func.ty(&body.local_decls, tcx);
                    let mut s = String::from("{\"k\":\"call\"");
                    match fty.kind() {
                        ty::FnDef(cdid, cargs) => {
                            let _ = write!(s, ",\"fn\":{}", esc(&self.path(*cdid)));
                            let full = self.fix(ty::print::with_no_visible_paths!(
                                ty::print::with_crate_prefix!(ty::print::with_no_trimmed_paths!(
                                    tcx.def_path_str_with_args(*cdid, cargs)
                                ))
                            ));
                            let _ = write!(s, ",\"full\":{}", esc(&full));
                            // trait method? try to resolve to the impl
                            if tcx.trait_of_assoc(*cdid).is_some() {
                                let _ = write!(s, ",\"tm\":true");
                                if let Some(first) = cargs.types().next() {
                                    let _ = write!(s, ",\"recv\":{}", esc(&self.ty_s(first)));
                                }
                                if let Ok(Some(inst)) = Instance::try_resolve(tcx, tenv, *cdid, cargs) {
                                    let rd = inst.def_id();
                                    if rd != *cdid || !matches!(inst.def, ty::InstanceKind::Virtual(..)) {
                                        let _ = write!(s, ",\"res\":{}", esc(&self.path(rd)));
                                    }
                                    if matches!(inst.def, ty::InstanceKind::Virtual(..)) {
                                        let _ = write!(s, ",\"virt\":true");
                                    }
                                }
                            }
                        }
                        _ => {
                            let _ = write!(s, ",\"fnptr\":{}", self.operand(body, tenv, func));
                            let _ = write!(s, ",\"fty\":{}", esc(&self.ty_s(fty)));
                        }
                    }
                    let aj: Vec<String> =
                        args.iter().map(|a| self.operand(body, tenv, &a.node)).collect();
                    let _ = write!(s, ",\"args\":[{}]", aj.join(","));
                    if let Some(d) = destination {
                        let _ = write!(s, ",\"dest\":{}", self.place(body, d));
                    }
                    match target {
                        Some(t) => {
                            let _ = write!(s, ",\"to\":{}", bbn(&t));
                        }
                        None => {
                            let _ = write!(s, ",\"to\":null");
                        }
                    }
                    let _ = write!(s, ",\"ln\":{},\"x\":{}", tl, tx);
                    if tx {
                        let _ = write!(s, ",\"m\":{}", esc(&self.macros(term.source_info.span)));
                    }
                    s.push('}');
                    out.push_str(&s);
                }
                TerminatorKind::FalseEdge { real_target, .. } => {
                    let _ = write!(out, "{{\"k\":\"goto\",\"to\":{}}}", bbn(real_target));
                }
                TerminatorKind::FalseUnwind { real_target, .. } => {
                    let _ = write!(out, "{{\"k\":\"goto\",\"to\":{}}}", bbn(real_target));
                }
                other => {
                    let name = format!("{:?}", other);
                    let name = name.split(|c| c == '(' || c == ' ').next().unwrap_or("").to_string();
                    let _ = write!(out, "{{\"k\":\"other\",\"what\":{}}}", esc(&name));
                }
            }
            out.push('}');
        }
        out.push_str("]}\n");
    }

    fn adt(&self, did: DefId, out: &mut String) {
        let tcx = self.tcx;
        let adt = tcx.adt_def(did);
        let (file, line) = self.loc(tcx.def_span(did));
        let _ = write!(
            out,
            "{{\"rec\":\"adt\",\"path\":{},\"kind\":{},\"file\":{},\"line\":{},\"attrs\":{},\"variants\":[",
            esc(&self.path(did)),
            esc(if adt.is_enum() { "enum" } else if adt.is_union() { "union" } else { "struct" }),
            esc(&file),
            line,
            self.attrs(did)
        );
        for (vi, v) in adt.variants().iter_enumerated() {
            if vi.as_u32() > 0 {
                out.push(',');
            }
            let discr = if adt.is_enum() {
                adt.discriminant_for_variant(tcx, vi).val.to_string()
            } else {
                "0".to_string()
            };
            let _ = write!(
                out,
                "{{\"name\":{},\"idx\":{},\"discr\":{},\"fields\":[",
                esc(&v.name.to_string()),
                vi.as_u32(),
                esc(&discr)
            );
            for (fi, f) in v.fields.iter().enumerate() {
                if fi > 0 {
                    out.push(',');
                }
                let fty = tcx.type_of(f.did).instantiate_identity().skip_norm_wip();
                let (ffile, fline) = self.loc(tcx.def_span(f.did));
                let _ = write!(
                    out,
                    "{{\"name\":{},\"ty\":{},\"pub\":{},\"file\":{},\"line\":{}}}",
                    esc(&f.name.to_string()),
                    esc(&self.ty_s(fty)),
                    f.vis.is_public(),
                    esc(&ffile),
                    fline
                );
            }
            out.push_str("]}");
        }
        out.push_str("]}\n");
    }

    fn attrs(&self, did: DefId) -> String {
        let mut v: Vec<String> = Vec::new();
        if did.as_local().is_some() {
            #[allow(deprecated)]
            for a in self.tcx.get_all_attrs(did) {
                if std::env::var("SOZU_FACTS_DEBUG_ATTRS").is_ok() {
                    eprintln!("ATTR {:?} => {:?}", self.path(did), a);
                }
                if let hir::Attribute::Unparsed(item) = a {
                    let path: Vec<String> =
                        item.path.segments.iter().map(|s| s.to_string()).collect();
                    let path = path.join("::");
                    if path == "serde" || path == "prost" {
                        let sm = self.tcx.sess.source_map();
                        let text = sm.span_to_snippet(item.span).unwrap_or_else(|_| path.clone());
                        v.push(esc(&text));
                    }
                }
            }
        }
        format!("[{}]", v.join(","))
    }

    fn impl_rec(&self, did: DefId, out: &mut String) {
        let tcx = self.tcx;
        let self_ty = tcx.type_of(did).instantiate_identity().skip_norm_wip();
        let tr = tcx.impl_opt_trait_ref(did).map(|t| t.instantiate_identity().skip_norm_wip());
        let _ = write!(
            out,
            "{{\"rec\":\"impl\",\"path\":{},\"self_ty\":{},\"trait\":{},\"items\":[",
            esc(&self.path(did)),
            esc(&self.ty_s(self_ty)),
            match tr {
                Some(t) => esc(&self.path(t.def_id)),
                None => "null".to_string(),
            }
        );
        let mut first = true;
        for it in tcx.associated_items(did).in_definition_order() {
            if !matches!(it.kind, ty::AssocKind::Fn { .. }) {
                continue;
            }
            if !first {
                out.push(',');
            }
            first = false;
            let ti = it.trait_item_def_id();
            let _ = write!(
                out,
                "{{\"name\":{},\"fn\":{},\"trait_fn\":{}}}",
                esc(&it.name().to_string()),
                esc(&self.path(it.def_id)),
                match ti {
                    Some(t) => esc(&self.path(t)),
                    None => "null".to_string(),
                }
            );
        }
        out.push_str("]}\n");
    }

    fn const_rec(&self, did: DefId, out: &mut String) {
        let tcx = self.tcx;
        let t = tcx.type_of(did).instantiate_identity().skip_norm_wip();
        if !(t.is_integral() || t.is_bool()) {
            // aggregate-valued constant (e.g. `const ALL: Self = Self { a: true, .. }`): dump its initialiser's MIR so
            // that rules can see through a use of the constant as they see through the literal
            if matches!(t.kind(), ty::Adt(..) | ty::Tuple(..)) && !tcx.generics_of(did).requires_monomorphization(tcx) {
                if let Some(ldid) = did.as_local() {
                    let body: &Body<'tcx> = tcx.mir_for_ctfe(ldid);
                    if body.basic_blocks.len() <= 8 {
                        self.body_rec(did, body, None, out);
                    }
                }
                // ... and its evaluated value, field by field, when every field is a scalar (covers initialisers
                // that go through a `const fn`)
                if let ty::Adt(adt, _) = t.kind() {
                    if let Ok(val) = tcx.const_eval_poly(did) {
                        if let Some(d) = tcx.try_destructure_mir_constant_for_user_output(val, t) {
                            let vi = d.variant.map(|v| v.as_u32()).unwrap_or(0);
                            let vd = adt.variant(rustc_abi::VariantIdx::from_u32(vi));
                            let mut fs: Vec<String> = Vec::new();
                            let mut all = true;
                            for (i, (fv, fty)) in d.fields.iter().enumerate() {
                                let name = vd.fields.iter().nth(i).map(|f| f.name.to_string()).unwrap_or_default();
                                match fv.try_to_scalar_int() {
                                    Some(sc) if fty.is_integral() || fty.is_bool() || fty.is_char() => {
                                        let bits = sc.to_bits(sc.size());
                                        fs.push(format!(
                                            "{{\"name\":{},\"ty\":{},\"v\":{}}}",
                                            esc(&name),
                                            esc(&self.ty_s(*fty)),
                                            esc(&bits.to_string())
                                        ));
                                    }
                                    _ => all = false,
                                }
                            }
                            if all {
                                let _ = write!(
                                    out,
                                    "{{\"rec\":\"constval\",\"path\":{},\"adt\":{},\"var\":{},\"vi\":{},\"fields\":[{}]}}\n",
                                    esc(&self.path(did)),
                                    esc(&self.path(adt.did())),
                                    esc(&vd.name.to_string()),
                                    vi,
                                    fs.join(",")
                                );
                            }
                        }
                    }
                }
            }
            return;
        }
        if tcx.generics_of(did).requires_monomorphization(tcx) {
            return;
        }
        if let Ok(val) = tcx.const_eval_poly(did) {
            if let Some(sc) = val.try_to_scalar_int() {
                let size = sc.size();
                let bits = sc.to_bits(size);
                let sval = if t.is_signed() {
                    size.sign_extend(bits).to_string()
                } else {
                    bits.to_string()
                };
                let _ = write!(
                    out,
                    "{{\"rec\":\"const\",\"path\":{},\"ty\":{},\"v\":{}}}\n",
                    esc(&self.path(did)),
                    esc(&self.ty_s(t)),
                    esc(&sval)
                );
            }
        }
    }
}

struct Cb;
impl Callbacks for Cb {
    fn after_analysis<'tcx>(
        &mut self,
        _c: &rustc_interface::interface::Compiler,
        tcx: TyCtxt<'tcx>,
    ) -> Compilation {
        let dir = match std::env::var("SOZU_FACTS_DIR") {
            Ok(d) => d,
            Err(_) => return Compilation::Continue,
        };
        let crate_name = tcx.crate_name(LOCAL_CRATE).to_string();
        if crate_name.starts_with("build_script") {
            return Compilation::Continue;
        }
        let ctype = format!("{:?}", tcx.crate_types().first());
        let ctype = if ctype.contains("Executable") { "bin" } else { "lib" };
        let cx = Cx { tcx };
        let mut out = String::with_capacity(64 << 20);
        let run = std::env::var("SOZU_FACTS_RUN").unwrap_or_default();
        let _ = write!(
            out,
            "{{\"rec\":\"crate\",\"name\":{},\"type\":{},\"run\":{}}}\n",
            esc(&crate_name),
            esc(ctype),
            esc(&run)
        );
        let mut nbodies = 0usize;
        for ldid in tcx.hir_body_owners() {
            let did = ldid.to_def_id();
            match tcx.def_kind(did) {
                DefKind::Fn | DefKind::AssocFn | DefKind::Closure => {}
                _ => continue,
            }
            if tcx.is_constructor(did) {
                continue;
            }
            cx.body(did, &mut out);
            nbodies += 1;
        }
        for ldid in tcx.hir_crate_items(()).definitions() {
            let did = ldid.to_def_id();
            match tcx.def_kind(did) {
                DefKind::Struct | DefKind::Enum => cx.adt(did, &mut out),
                DefKind::Impl { .. } => cx.impl_rec(did, &mut out),
                DefKind::Const { .. } | DefKind::AssocConst { .. } => cx.const_rec(did, &mut out),
                _ => {}
            }
        }
        let _ = write!(out, "{{\"rec\":\"end\",\"bodies\":{}}}\n", nbodies);
        let file = format!("{}/{}-{}-{}.jsonl", dir, crate_name, ctype, std::process::id());
        let tmp = format!("{}.tmp", file);
        std::fs::write(&tmp, out).expect("write facts");
        std::fs::rename(&tmp, &file).expect("rename facts");
        Compilation::Continue
    }
}

fn main() {
    let mut args: Vec<String> = std::env::args().collect();
    // RUSTC_WORKSPACE_WRAPPER: argv[1] is the path of the real rustc
    if args.len() > 1 && (args[1].ends_with("rustc") || args[1].contains("/rustc")) {
        args.remove(1);
    }
    let mut cb = Cb;
    rustc_driver::run_compiler(&args, &mut cb);
}
