"""C06 - applying the computed difference reaches the target (structural clauses)."""
import json, os
import cover, guards, C05
from mir import callee_of, op_place, pl_local, proj_fields

STATE = "sozu_command_lib::state::ConfigState"
RT = "sozu_command_lib::proto::command::request::RequestType"
BACKEND = "sozu_command_lib::response::Backend"
HERE = os.path.dirname(os.path.abspath(__file__))


def run(F, chk):
    chk.explanation = (
        "Structural necessary conditions of diff-and-apply decided on the compiled ConfigState::diff: every "
        "configuration component is read on both sides (self and other); for every creating verb the generator can emit, "
        "diff constructs both that verb and its removing counterpart; and the identity used to pair backends between the "
        "two sides contains the address as well as the backend id (two backends may share an id).")
    chk.not_decided = "that the emitted list, applied to A, yields exactly B (needs evaluation); emptiness of diff(A, A)"
    chk.assumptions += ["the Add<->Remove correspondence of verbs is the naming table in tables/C06.json"]
    diff = F.body(STATE + "::diff")
    fns = cover.reach_functions(F, diff.path, depth=2)
    # ---------------- R-C06-a --------------------------------------------------
    ra = chk.rule("R-C06-a", "T7a", "diff reads every ConfigState component on both self and other", floor=22)
    reads, roots = cover.body_field_reads(diff, STATE)
    fam_reads = set()
    for p in fns:
        r, _ = cover.body_field_reads(F.body(p), STATE)
        fam_reads |= {f for (_, f) in r}
    ra.fn(*fns)
    for f in [x["name"] for x in F.fields(STATE)]:
        if f == "request_counts":
            continue
        rs = roots.get((STATE, f), set())
        for side, arg in (("self", 1), ("other", 2)):
            key = "%s.%s" % (side, f)
            if arg in rs:
                ra.ok(key, diff.where(), "read", nontrivial=False)
            else:
                ra.violation(key, diff.where(), "ConfigState::diff never reads %s.%s: differences in that component are not emitted" % (side, f))
    # ---------------- R-C06-b --------------------------------------------------
    rb = chk.rule("R-C06-b", "T7b", "diff constructs the adding and the removing verb of every object kind", floor=20)
    inv = json.load(open(os.path.join(HERE, "..", "tables", "C06.json")))["inverse"]
    built = cover.variants_constructed(F, fns, RT)
    gen_fns = cover.reach_functions(F, STATE + "::generate_requests", depth=3)
    gen_built = cover.variants_constructed(F, gen_fns, RT)
    rb.fn(*fns)
    for V in sorted(gen_built):
        if V not in inv:
            rb.broke("generator emits %s which has no entry in the inverse-verb table" % V)
            continue
        for need, why in ((V, "adding"), (inv[V], "removing")):
            key = "%s (%s verb of %s)" % (need, why, V)
            if need in built:
                rb.ok(key, diff.where(), "constructed", nontrivial=False)
            else:
                rb.violation(key, diff.where(), "ConfigState::diff never constructs RequestType::%s, the %s verb for objects created by %s" % (need, why, V))
    sort_order_rule(F, chk)
    # ---------------- R-C06-c --------------------------------------------------
    rc = chk.rule("R-C06-c", "T12", "the key pairing backends across the two states contains id and address", floor=2)
    n = 0
    for p in fns:
        b = F.body(p)
        for bi, si, s in b.stmts():
            rv = s.get("rv")
            if not (rv and rv["k"] == "agg" and rv.get("ak") == "tuple"):
                continue
            flds = set()
            for o in rv["ops"]:
                sl = guards.slice_of_operand(b, o)
                flds |= {(a, f) for (a, f) in sl["fields"] if a == BACKEND}
            if (BACKEND, "backend_id") in flds and len(rv["ops"]) == 2 and not any(f == "weight" for _, f in flds):
                # a (.., backend_id) key tuple
                ty = b.locals[s["lhs"]] if isinstance(s["lhs"], int) else ""
                if "Backend" in ty and ty.strip().startswith("(("):
                    continue   # the (key, value) pair wrapping the key tuple
                n += 1
                ordn = n
                key = "%s|backend key tuple" % p
                if (BACKEND, "address") in flds:
                    rc.ok(key, b.where(bi, si), "key reads backend_id and address")
                else:
                    rc.violation(key, b.where(bi, si), "backends are paired across the two states by (cluster, backend_id) only: two backends "
                                 "sharing an id at different addresses collapse, and diff adds/removes the wrong one")
    rc.fn(*fns)


def sort_order_rule(F, chk):
    """R-C06-d: ConfigState keeps each cluster's backends sorted with Backend::cmp and diff merge-joins the two
    lists on (cluster_id, backend_id): the merge is only correct if that key is a prefix of the sort order."""
    r = chk.rule("R-C06-d", "T8", "Backend's sort order starts with the merge-join key of diff (cluster_id, backend_id)", floor=1)
    p = "<%s as core::cmp::Ord>::cmp" % BACKEND
    if not r.require(F.has(p), "Backend::cmp not found"):
        return
    b = F.body(p)
    r.fn(p)
    order = []
    for bi, t in b.calls():
        c = callee_of(t)
        if c.endswith("core::cmp::Ord>::cmp") or c.endswith("::socketaddr_cmp") or c.endswith("Ord::cmp"):
            flds = set()
            for a in t["args"]:
                flds |= {f for (ad, f) in guards.slice_of_operand(b, a)["fields"] if ad == BACKEND}
            if len(flds) == 1:
                order.append(list(flds)[0])
    key = "Backend::cmp|key prefix"
    if order[:2] == ["cluster_id", "backend_id"]:
        r.ok(key, b.where(), "comparison chain: %s" % order)
    else:
        r.violation(key, b.where(), "Backend::cmp compares %s: (cluster_id, backend_id) is no longer a prefix of the order in which ConfigState keeps backends sorted, so diff's merge-join over (cluster_id, backend_id) mis-pairs backends" % order)
