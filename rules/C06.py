"""C06 - applying the computed difference reaches the target (structural clauses)."""
import json, os
import cover, guards, lib, C05
from mir import callee_of, op_place, pl_local, proj_fields

STATE = "sozu_command_lib::state::ConfigState"
RT = "sozu_command_lib::proto::command::request::RequestType"
BACKEND = "sozu_command_lib::response::Backend"
HERE = os.path.dirname(os.path.abspath(__file__))


def run(F, chk):
    chk.explanation = (
        "Structural necessary conditions of diff-and-apply decided on the compiled ConfigState::diff: every "
        "configuration component is read on both sides (self and other); for every creating verb the generator can emit, "
        "diff constructs both that verb and its removing counterpart; and the identity used to pair backends between the "
        "two sides contains the address as well as the backend id (two backends may share an id).")
    chk.not_decided = "that the emitted list, applied to A, yields exactly B (needs evaluation); emptiness of diff(A, A)"
    chk.assumptions += ["the Add<->Remove correspondence of verbs is the naming table in tables/C06.json"]
    diff = F.body(STATE + "::diff")
    fns = cover.reach_functions(F, diff.path, depth=2)
    # ---------------- R-C06-a --------------------------------------------------
    ra = chk.rule("R-C06-a", "T7a", "diff reads every ConfigState component on both self and other", floor=22)
    import lib
    fdiff = lib.flat(F, diff)                                            # sections moved into private helpers still count
    reads, roots0 = cover.body_field_reads(fdiff, STATE)
    roots = {k: {cover.root_param(fdiff, l) for l in ls} for k, ls in roots0.items()}
    fam_reads = set()
    for p in fns:
        r, _ = cover.body_field_reads(F.body(p), STATE)
        fam_reads |= {f for (_, f) in r}
    ra.fn(*fns)
    for f in [x["name"] for x in F.fields(STATE)]:
        if f == "request_counts":
            continue
        rs = roots.get((STATE, f), set())
        for side, arg in (("self", 1), ("other", 2)):
            key = "%s.%s" % (side, f)
            if arg in rs:
                ra.ok(key, diff.where(), "read", nontrivial=False)
            else:
                ra.violation(key, diff.where(), "ConfigState::diff never reads %s.%s: differences in that component are not emitted" % (side, f))
    # ---------------- R-C06-b --------------------------------------------------
    rb = chk.rule("R-C06-b", "T7b", "diff constructs the adding and the removing verb of every object kind", floor=20)
    inv = json.load(open(os.path.join(HERE, "..", "tables", "C06.json")))["inverse"]
    built = cover.variants_constructed(F, fns, RT)
    gen_fns = cover.reach_functions(F, STATE + "::generate_requests", depth=3)
    gen_built = cover.variants_constructed(F, gen_fns, RT)
    rb.fn(*fns)
    for V in sorted(gen_built):
        if V not in inv:
            rb.broke("generator emits %s which has no entry in the inverse-verb table" % V)
            continue
        for need, why in ((V, "adding"), (inv[V], "removing")):
            key = "%s (%s verb of %s)" % (need, why, V)
            if need in built:
                rb.ok(key, diff.where(), "constructed", nontrivial=False)
            else:
                rb.violation(key, diff.where(), "ConfigState::diff never constructs RequestType::%s, the %s verb for objects created by %s" % (need, why, V))
    sort_order_rule(F, chk)
    whole_listener_comparison_rule(F, chk)
    upsert_replaces_rule(F, chk)
    # ---------------- R-C06-c --------------------------------------------------
    rc = chk.rule("R-C06-c", "T12", "the key pairing backends across the two states contains id and address", floor=2)
    n = 0
    ranks = {}
    lines_ = {}
    for p in sorted(fns):
        b = F.body(p)
        for bi, si, s in b.stmts():
            rv = s.get("rv")
            if not (rv and rv["k"] == "agg" and rv.get("ak") == "tuple"):
                continue
            flds = set()
            for o in rv["ops"]:
                sl = guards.slice_of_operand(b, o)
                flds |= {(a, f) for (a, f) in sl["fields"] if a == BACKEND}
            if (BACKEND, "backend_id") in flds and len(rv["ops"]) == 2 and not any(f == "weight" for _, f in flds):
                # a (.., backend_id) key tuple
                ty = b.locals[s["lhs"]] if isinstance(s["lhs"], int) else ""
                if "Backend" in ty and ty.strip().startswith("(("):
                    continue   # the (key, value) pair wrapping the key tuple
                n += 1
                ordn = n
                # keyed by rank among the key-building sites of the same kind (in a closure / in a plain body): closure
                # numbers shift when an unrelated closure is added, and configurations with debug assertions compiled in
                # have additional sites in the plain bodies
                kind_ = ("closure" if "{closure" in p else "body") + ("" if (BACKEND, "address") in flds else "!")
                here_ = b.where(bi, si)
                if lines_.get(kind_) != here_:           # monomorphised / assertion copies of one source site share a rank
                    ranks[kind_] = ranks.get(kind_, -1) + 1
                    lines_[kind_] = here_
                # (sites that pair by id only are ranked among themselves: these are the ones a finding can name)
                key = "%s|backend key tuple#%d" % (STATE + "::diff", ranks[kind_]) if kind_ == "closure!" else \
                      "%s|backend key tuple (%s %s)#%d" % (STATE + "::diff", kind_, p.rsplit("::", 1)[-1], ranks[kind_])
                if (BACKEND, "address") in flds:
                    rc.ok(key, b.where(bi, si), "key reads backend_id and address")
                else:
                    rc.violation(key, b.where(bi, si), "backends are paired across the two states by (cluster, backend_id) only: two backends "
                                 "sharing an id at different addresses collapse, and diff adds/removes the wrong one")
    rc.fn(*fns)


def sort_order_rule(F, chk):
    """R-C06-d: ConfigState keeps each cluster's backends sorted with Backend::cmp and diff merge-joins the two
    lists on (cluster_id, backend_id): the merge is only correct if that key is a prefix of the sort order."""
    r = chk.rule("R-C06-d", "T8", "Backend's sort order starts with the merge-join key of diff (cluster_id, backend_id)", floor=1)
    p = "<%s as core::cmp::Ord>::cmp" % BACKEND
    if not r.require(F.has(p), "Backend::cmp not found"):
        return
    b = F.body(p)
    r.fn(p)
    order = []
    for bi, t in b.calls():
        c = callee_of(t)
        if c.endswith("core::cmp::Ord>::cmp") or c.endswith("::socketaddr_cmp") or c.endswith("Ord::cmp"):
            flds = set()
            for a in t["args"]:
                flds |= {f for (ad, f) in guards.slice_of_operand(b, a)["fields"] if ad == BACKEND}
            if len(flds) == 1:
                order.append(list(flds)[0])
    if order[:2] != ["cluster_id", "backend_id"]:
        # the other idiom: lexicographic comparison of a key tuple built from the fields (possibly by a private helper):
        # the order is the order of the tuple's components
        fb = lib.flat(F, b)
        for bi, si, st in fb.stmts():
            rv = st.get("rv")
            if rv and rv["k"] == "agg" and rv.get("ak") == "tuple" and len(rv["ops"]) >= 2:
                comp = []
                for o in rv["ops"]:
                    fl = {f for (ad, f) in guards.slice_of_operand(fb, o)["fields"] if ad == BACKEND}
                    comp.append(sorted(fl)[0] if len(fl) == 1 else None)
                if comp[:2] == ["cluster_id", "backend_id"] or (comp and comp[0] is not None and len([c for c in comp if c]) >= 2):
                    order = [c for c in comp if c]
                    break
    key = "Backend::cmp|key prefix"
    if order[:2] == ["cluster_id", "backend_id"]:
        r.ok(key, b.where(), "comparison chain: %s" % order)
    else:
        r.violation(key, b.where(), "Backend::cmp compares %s: (cluster_id, backend_id) is no longer a prefix of the order in which ConfigState keeps backends sorted, so diff's merge-join over (cluster_id, backend_id) mis-pairs backends" % order)


def whole_listener_comparison_rule(F, chk):
    """R-C06-e: for a listener present in both states diff decides `unchanged` with one equality test.  Whatever that
    test ignores is a difference diff cannot see, so (necessary condition of diff(A,B) empty => A == B) each of the four
    listener classes is compared as a whole value taken from the two states: a PartialEq::eq/ne on the class's config
    type whose operands are not locally modified copies (no field of an operand is overwritten before the comparison)."""
    r = chk.rule("R-C06-e", "T12", "listeners are compared as whole, unmodified values", floor=4)
    CLASSES = ("HttpListenerConfig", "HttpsListenerConfig", "TcpListenerConfig", "UdpListenerConfig")
    seen = {}
    fns = cover.reach_functions(F, STATE + "::diff", depth=1)
    for p in fns:
        b = F.body(p)
        for bi, t in b.calls():
            fn = t.get("fn") or ""
            if not (fn.endswith("PartialEq::ne") or fn.endswith("PartialEq::eq")):
                continue
            ty = (t.get("recv") or "").lstrip("&").rsplit("::", 1)[-1]
            if ty not in CLASSES:
                continue
            r.fn(p)
            # operands that were built here and had a field overwritten
            modified = []
            for a in t["args"]:
                for l in sorted(guards.slice_of_operand(b, a)["locals"]):
                    if b.locals[l].lstrip("&").endswith(ty) and any(d[2] == "partial" and "lhs" in d[3] and proj_fields(d[3]["lhs"]) for d in b.defs().get(l, [])):
                        flds = sorted({proj_fields(d[3]["lhs"])[-1][2] for d in b.defs().get(l, []) if d[2] == "partial" and "lhs" in d[3] and proj_fields(d[3]["lhs"])})
                        modified.append((l, flds))
            seen.setdefault(ty, []).append((b, bi, modified))
    for ty in CLASSES:
        key = "%s compared whole" % ty
        sites = seen.get(ty, [])
        if not sites:
            r.violation(key, F.body(STATE + "::diff").where(), "diff no longer compares two %s values as a whole: a change in a field it does not look at produces no request" % ty)
            continue
        bad = [(b, bi, m) for b, bi, m in sites if m]
        if bad:
            b, bi, m = bad[0]
            r.violation(key, b.where(bi), "diff compares a locally modified copy of the %s (field(s) %s overwritten before the test): a listener that differs only in %s is reported as unchanged and no request is emitted for it" % (ty, m[0][1], m[0][1]))
        else:
            r.ok(key, sites[0][0].where(sites[0][1]), "%d whole-value comparison(s), operands unmodified" % len(sites))


def upsert_replaces_rule(F, chk):
    """R-C06-f: diff encodes `cluster X changed` as one AddCluster(target value) and relies on AddCluster REPLACING the
    stored cluster.  That only reaches the target if the value add_cluster stores is the request's value: nothing read
    from the previously stored entry may flow into it (a field `kept` from the old value is a difference diff believes
    it has removed)."""
    import alias
    r = chk.rule("R-C06-f", "T12", "AddCluster stores the requested cluster, not a merge with the stored one", floor=1)
    b = lib.flat(F, F.body(STATE + "::add_cluster"))
    r.fn(b.path)
    sites = [s_ for s_ in alias.field_touch(b, alias.Origins(b), STATE, "clusters")
             if s_["kind"] == "call" and s_["direct"] and s_["callee"].endswith("::insert")]
    if not r.require(sites, "add_cluster: no insertion into ConfigState.clusters found"):
        return
    for i, s_ in enumerate(sites):
        t = b.blocks[s_["bb"]]["t"]
        val = t["args"][-1]
        sl = guards.slice_of_operand(b, val)
        key = "%s|clusters.insert#%d value comes from the request only" % (b.path, i)
        if any(a == STATE and f == "clusters" for a, f in sl["fields"]):
            r.violation(key, b.where(s_["bb"]), "the cluster stored by add_cluster depends on the previously stored entry (a value read from self.clusters flows into it): AddCluster is no longer a replacement, so the diff's `re-add the changed cluster` does not reach the target state")
        else:
            r.ok(key, b.where(s_["bb"]), "the inserted value has no data dependency on self.clusters")
