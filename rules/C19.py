"""C19 - UDP flows: cap, stickiness skeleton, teardown exactly once, isolation skeleton."""
import alias, cover, guards, lib
from mir import callee_of, op_place, pl_local, proj_fields
from mir import op_local as mir_op_local

MGR = "sozu_lib::protocol::udp::manager::UdpManager"
FLOW = "sozu_lib::protocol::udp::flow::UdpFlow"
OUT = "sozu_lib::protocol::udp::Output"
INSERTERS = ("::insert", "::vacant_entry", "::insert_entry", "::entry", "::extend", "::push")
REMOVERS = ("::remove", "::try_remove", "::clear", "::drain", "::retain", "::pop")


def mgr_fn(F, name):
    return F.body(MGR + "::<E>::" + name)


def run(F, chk):
    chk.explanation = (
        "Structural skeleton of the UDP flow core decided on MIR: (a) every insertion into "
        "UdpManager.flows/table happens in one function behind the not-draining edge and the strict "
        "len<max_flows edge; (b) a backend is requested only at admission and UdpFlow.backend_addr/"
        "backend_id are written only by on_backend_resolved behind the AwaitingBackend test; (c) only "
        "close_flow removes from flows, and every path through the removal emits exactly one CloseFlow; "
        "(d) SendToClient's destination is read from the flow's own `client` field.")
    chk.not_decided = ("who received which payload over a history, datagram ordering, timers and "
                       "generation tokens, the I/O shell's socket behaviour")
    chk.assumptions += [
        "UdpManager fields are private to protocol::udp::manager (all accesses are visible as field projections in the three crates' MIR)",
        "slab::Slab and HashMap behave per their documentation",
    ]
    # ---------------- R-C19-a cap ---------------------------------------
    ra = chk.rule("R-C19-a", "T4+T5", "flows/table insertions occur only in on_client_datagram, behind "
                  "!draining and flows.len() < max_flows", floor=2)
    writers = {"flows": [], "table": []}
    bodies = F.grep("udp::manager::UdpManager|UdpManager|")
    for b in bodies:
        og = alias.Origins(b)
        ra.fn(b.path)
        for fld in ("flows", "table"):
            for site in alias.field_touch(b, og, MGR, fld):
                if site["kind"] == "call" and site["direct"] and any(site["callee"].endswith(x) for x in INSERTERS):
                    writers[fld].append((b, site))
    ocd0 = mgr_fn(F, "on_client_datagram")
    # private helpers are examined as part of their caller: on_client_datagram with them spliced in
    ocd = lib.flat(F, ocd0)
    spliced = {x[0] for x in ocd.inl}
    og_flat = alias.Origins(ocd)
    for fld in ("flows", "table"):
        ra.require(writers[fld], "no insertion into UdpManager.%s found" % fld)
        sites = []
        for b, site in writers[fld]:
            if b.path == ocd0.path:
                continue
            if b.path in spliced and lib.only_called_from(F, b.path, {ocd0.path} | spliced):
                continue
            ra.violation("%s|%s.insert" % (b.path, fld), b.where(site["bb"]), "insertion into UdpManager.%s outside on_client_datagram (%s)" % (fld, site["callee"]))
        for site in alias.field_touch(ocd, og_flat, MGR, fld):
            if site["kind"] == "call" and site["direct"] and any(site["callee"].endswith(x) for x in INSERTERS):
                sites.append((ocd, site))
        ra.require(sites, "no insertion into UdpManager.%s in on_client_datagram" % fld)
        for b, site in sites:
            key = "%s|%s.insert" % (b.path, fld)
            # accepted edges: draining == false ; flows.len() < max_flows
            def drain_pred(bi, truth, atom):
                return atom[0] == "place" and any(a.endswith("UdpManager") and f == "draining" for a, _, f in proj_fields(atom[1])) and truth is False
            e_drain = lib.edges_where(b, drain_pred)
            if not (e_drain and lib.guarded_by(b, site["bb"], e_drain)):
                # the drain state in another representation (enum, Option, ..): the field(s) the public is_draining()
                # accessor reads, consulted by a switch one of whose outcomes excludes the insertion
                acc = [q for q in F.paths() if q.startswith(MGR + "::") and q.endswith("::is_draining")]
                dfields = set()
                for q in acc:
                    rd_, _ = cover.body_field_reads(lib.flat(F, F.body(q)), MGR)
                    dfields |= {f for _, f in rd_}
                if dfields:
                    e_drain = lib.state_gates(b, site["bb"], dfields)
            e_cap = []
            for bi, f, t, atom in guards.bool_switches(b):
                if atom[0] != "cmp":
                    continue
                for tgt in (f, t):
                    rel = lib.relation_on_edge(b, bi, tgt)
                    if rel is None:
                        continue
                    op, sa, sb, _ = rel
                    a_len = lib.has_field(sa, "UdpManager", "flows") and lib.has_callee(sa, "::len")
                    b_len = lib.has_field(sb, "UdpManager", "flows") and lib.has_callee(sb, "::len")
                    a_max = lib.has_field(sa, "UdpManager", "max_flows")
                    b_max = lib.has_field(sb, "UdpManager", "max_flows")
                    if (a_len and b_max and not a_max and op == "Lt") or (a_max and b_len and not b_max and op == "Gt"):
                        e_cap.append((bi, tgt))
            ok_d = bool(e_drain) and lib.guarded_by(b, site["bb"], e_drain)
            ok_c = bool(e_cap) and lib.guarded_by(b, site["bb"], e_cap)
            if ok_d and ok_c:
                ra.ok(key, b.where(site["bb"]), "dominated by !draining edge(s) %s and len<max edge(s) %s" % (e_drain, e_cap))
            else:
                ra.violation(key, b.where(site["bb"]),
                             "insertion into UdpManager.%s reachable without passing %s" % (
                                 fld, " and ".join(x for x, ok in (("the !draining edge", ok_d), ("a strict flows.len() < max_flows edge", ok_c)) if not ok)))
    # ---------------- R-C19-e existing flows continue under saturation / drain
    re_ = chk.rule("R-C19-e", "T5", "the tracked-flow path is not behind the cap / drain tests", floor=1)
    ocd_a = ocd
    ocd = lib.flat(F, ocd0, keep=("::forward_on_existing_flow",))
    fwd = [bi for bi, t in ocd.calls() if callee_of(t) == MGR + "::<E>::forward_on_existing_flow"]
    if re_.require(fwd, "on_client_datagram: forward_on_existing_flow call not found"):
        re_.fn(ocd.path)
        gates = []
        for bi, f, t, atom in guards.bool_switches(ocd):
            if atom[0] == "place" and any(fl == "draining" for _, _, fl in proj_fields(atom[1])):
                gates.append((bi, "draining"))
            if atom[0] == "cmp":
                sa, sb = guards.slice_of_operand(ocd, atom[2]), guards.slice_of_operand(ocd, atom[3])
                if lib.has_field(sa, "UdpManager", "max_flows") or lib.has_field(sb, "UdpManager", "max_flows"):
                    gates.append((bi, "flows.len() vs max_flows"))
        dom = [(g, n) for g, n in gates if any(ocd.dominates(g, x) for x in fwd)]
        key = "%s|existing flows bypass the admission gates" % ocd.path
        if gates and not dom:
            re_.ok(key, ocd.where(fwd[0]), "forward_on_existing_flow is reachable without evaluating %s" % sorted({n for _, n in gates}))
        elif not gates:
            re_.broke("on_client_datagram: draining / cap tests not found")
        else:
            re_.violation(key, ocd.where(fwd[0]), "datagrams of an already tracked flow only reach forward_on_existing_flow after the %s test: under drain or at the cap live flows are shed together with new ones" % sorted({n for _, n in dom}))
    ocd = ocd0
    # ---------------- R-C19-f teardown isolation --------------------------
    rf_ = chk.rule("R-C19-f", "T5", "closing a flow unmaps a table key only if that key still maps to this flow", floor=1)
    cfb = lib.flat(F, mgr_fn(F, "close_flow"))
    rf_.fn(cfb.path)
    removes = [s_["bb"] for s_ in alias.field_touch(cfb, alias.Origins(cfb), MGR, "table")
               if s_["kind"] == "call" and s_["direct"] and s_["callee"].endswith("::remove")]
    def owned_pred(sb, truth, atom):
        if atom[0] != "call":
            return False
        c = atom[1]
        if not (c.endswith("PartialEq>::eq") or c.endswith("PartialEq::eq") or c.endswith("PartialEq>::ne") or c.endswith("PartialEq::ne")):
            return False
        want = c.endswith("eq")
        if truth is not want:
            return False
        cs, fl = set(), set()
        for a in atom[2]["args"]:
            sl = guards.slice_of_operand(cfb, a)
            cs |= sl["callees"]; fl |= {f for _, f in sl["fields"]}
        return "table" in fl and any(x.endswith("::get") for x in cs)
    own_edges = lib.edges_where(cfb, owned_pred)
    if rf_.require(removes, "close_flow: no table.remove(..) found"):
        for i, x in enumerate(sorted(removes)):
            key = "%s|table.remove#%d behind table.get(key) == this flow" % (cfb.path, i)
            if own_edges and lib.guarded_by(cfb, x, own_edges):
                rf_.ok(key, cfb.where(x), "only on the edge where the key was found to map to the flow being closed")
            else:
                rf_.violation(key, cfb.where(x), "close_flow removes a table key without having established that it maps to the flow being closed: after an affinity-mode flip the key computed for this flow can be another live flow's key, which is silently unmapped (that client is then admitted as a second flow with a fresh backend)")
    # ---------------- R-C19-g per-datagram context in the I/O shell ----------
    # The shell remembers the upstream socket a datagram has just opened (`in_flight_flow`) so that the SendToBackend
    # output of THAT datagram uses it.  The memory is per datagram: inside the receive loop it is cleared before each
    # datagram is handed to the manager; otherwise the next datagram of the same readable pass - which may belong to
    # another, established flow - is written on the socket of the flow opened just before (wrong backend, reply to the
    # wrong client).
    rg_ = chk.rule("R-C19-g", "T3", "the shell's per-datagram flow context is cleared for every received datagram", floor=1)
    import loops
    shells = [q for q in F.paths() if q.startswith("sozu_lib::udp::UdpListenerSession") and q.endswith("::ingest_client")]
    if rg_.require(shells, "UdpListenerSession::ingest_client not found"):
        sb_ = lib.flat(F, F.body(shells[0]), keep=(MGR + "::<E>::handle_input", MGR + "::<E>::on_client_datagram"))
        rg_.fn(sb_.path)
        calls_ = [bi for bi, t in sb_.calls() if callee_of(t).endswith(("::on_client_datagram", "UdpManager::<E>::handle_input"))]
        resets = []
        for bi, si, st in sb_.stmts():
            lhs = st.get("lhs")
            if isinstance(lhs, dict) and proj_fields(lhs) and proj_fields(lhs)[-1][2] == "in_flight_flow":
                rv = st["rv"]
                if rv["k"] == "use" and mir_op_local(rv["a"]) is not None:
                    d = sb_.single_def(mir_op_local(rv["a"]))
                    rv = d[3] if d and d[2] == "assign" else rv
                if rv["k"] == "agg" and rv.get("var") == "None":
                    resets.append(bi)
        key = "%s|in_flight_flow cleared per datagram" % sb_.path
        if rg_.require(calls_, "ingest_client: call of UdpManager::on_client_datagram not found"):
            lps = [(h, body) for h, body, backs in loops.natural_loops(sb_) if calls_[0] in body]
            if not lps:
                rg_.ok(key, sb_.where(calls_[0]), "one datagram per call (no receive loop)", nontrivial=False)
            else:
                h, body = min(lps, key=lambda x: len(x[1]))
                inside = [x for x in resets if x in body and sb_.dominates(x, calls_[0])]
                if inside:
                    rg_.ok(key, sb_.where(inside[0]), "cleared inside the receive loop, before the datagram reaches the manager")
                else:
                    rg_.violation(key, sb_.where(calls_[0]), "in_flight_flow is not cleared inside the receive loop: the upstream socket opened for one datagram is still selected for the next datagram of the same readable pass, which may belong to another flow (it reaches that flow's backend, and the reply goes to the other client)")
    # ---------------- R-C19-b stickiness skeleton -------------------------
    rb = chk.rule("R-C19-b", "T4+T5", "SelectBackend only at admission; backend_addr/backend_id written only in "
                  "on_backend_resolved behind phase==AwaitingBackend", floor=3)
    sel = []
    for b in F.grep('"var":"SelectBackend"'):
        for bi, si, s in lib.agg_sites(b, "protocol::udp::Output", "SelectBackend"):
            sel.append((b, bi))
    rb.require(sel, "no construction of Output::SelectBackend found")
    sel_owned = []
    for b, bi in sel:
        own = lib.owner_of(F, b, stop_at=(ocd.path,))
        if own.path != b.path:
            # built in a private helper of its single caller: examine it inside that caller
            fb = lib.flat(F, own)
            sel_owned += [(fb, x) for x, si, s in lib.agg_sites(fb, "protocol::udp::Output", "SelectBackend")]
        else:
            sel_owned.append((b, bi))
    for b, bi in sel_owned:
        key = "%s|SelectBackend" % b.path
        rb.fn(b.path)
        if b.path != ocd.path:
            rb.violation(key, b.where(bi), "Output::SelectBackend constructed outside the admission path")
            continue
        if b.inl:
            ins = [s_["bb"] for s_ in alias.field_touch(b, alias.Origins(b), MGR, "flows")
                   if s_["kind"] == "call" and s_["direct"] and any(s_["callee"].endswith(x) for x in INSERTERS)]
        else:
            ins = [s["bb"] for _, s in writers["flows"] if _.path == b.path]
        if ins and all(b.dominates(x, bi) for x in ins[:1]):
            rb.ok(key, b.where(bi), "dominated by the flows.insert at bb%d" % ins[0])
        else:
            rb.violation(key, b.where(bi), "Output::SelectBackend not dominated by the admission insert")
    obr = mgr_fn(F, "on_backend_resolved")
    nw = 0
    for b in F.grep("udp::flow::UdpFlow|UdpFlow|backend_"):
        og = None
        for fld in ("backend_addr", "backend_id"):
            for bi, si, s in b.stmts():
                if "lhs" not in s or isinstance(s["lhs"], int):
                    continue
                if not any(a == FLOW and f == fld for a, _, f in proj_fields(s["lhs"])):
                    continue
                key = "%s|write %s" % (b.path, fld)
                rb.fn(b.path)
                nw += 1
                if b.path == obr.path:
                    # guard: phase == AwaitingBackend edge
                    def aw_pred(bi2, truth, atom):
                        if atom[0] != "call":
                            return False
                        cal, t = atom[1], atom[2]
                        if not (t.get("fn") in ("core::cmp::PartialEq::ne", "core::cmp::PartialEq::eq")):
                            return False
                        sl = guards.slice_of_operand(b, t["args"][0])
                        if not lib.has_field(sl, "UdpFlow", "phase"):
                            return False
                        # the constant operand must be FlowPhase::AwaitingBackend
                        val = None
                        for l2 in guards.slice_of_operand(b, t["args"][1])["locals"]:
                            for d in b.defs().get(l2, []):
                                if d[2] == "assign" and d[3]["k"] == "use" and "promoted" in d[3]["a"]:
                                    val = F.promoted_value(d[3]["a"].get("pof", b.path), d[3]["a"]["promoted"])
                        if val != ("variant", "sozu_lib::protocol::udp::flow::FlowPhase", "AwaitingBackend"):
                            return False
                        is_ne = t.get("fn").endswith("::ne")
                        return truth == (not is_ne) if False else (truth is (not is_ne))
                    edges = lib.edges_where(b, aw_pred)
                    if edges and lib.guarded_by(b, bi, edges):
                        rb.ok(key, b.where(bi, si), "write dominated by phase==AwaitingBackend edge %s" % edges)
                    else:
                        rb.violation(key, b.where(bi, si), "write of UdpFlow.%s not dominated by the phase==AwaitingBackend edge" % fld)
                else:
                    rb.violation(key, b.where(bi, si), "UdpFlow.%s written outside on_backend_resolved" % fld)
    # forward_on_existing_flow must not request a backend (covered by SelectBackend site rule) and reads backend_addr
    fe = mgr_fn(F, "forward_on_existing_flow")
    reads = any(any(a == FLOW and f == "backend_addr" for a, _, f in proj_fields(op_place(s["rv"]["a"]) or 0))
                for _, _, s in fe.stmts() if "rv" in s and s["rv"]["k"] == "use" and op_place(s["rv"]["a"]) is not None)
    if reads:
        rb.ok("%s|reads backend_addr" % fe.path, fe.where(), "existing-flow forward takes dst from flow.backend_addr")
    else:
        rb.violation("%s|reads backend_addr" % fe.path, fe.where(), "forward_on_existing_flow no longer reads flow.backend_addr")
    # ---------------- R-C19-c teardown exactly once ------------------------
    rc = chk.rule("R-C19-c", "T4+T1", "only close_flow removes from flows; each path through the removal pushes exactly one CloseFlow", floor=2)
    cf = mgr_fn(F, "close_flow")
    removers = []
    for b in bodies:
        og = alias.Origins(b)
        for site in alias.field_touch(b, og, MGR, "flows"):
            if site["kind"] == "call" and site["direct"] and any(site["callee"].endswith(x) for x in REMOVERS):
                removers.append((b, site))
    rc.require(removers, "no removal from UdpManager.flows found")
    for b, site in removers:
        key = "%s|flows%s" % (b.path, site["callee"][site["callee"].rfind("::"):])
        rc.fn(b.path)
        if b.path != cf.path:
            rc.violation(key, b.where(site["bb"]), "removal from UdpManager.flows outside close_flow (%s)" % site["callee"])
        else:
            rc.ok(key, b.where(site["bb"]), "in close_flow", nontrivial=False)
    closes = []
    for b in F.grep('"var":"CloseFlow"'):
        if "protocol::udp::manager" not in b.path:
            continue
        for bi, si, s in lib.agg_sites(b, "protocol::udp::Output", "CloseFlow"):
            closes.append((b, bi))
            if b.path != cf.path:
                rc.violation("%s|CloseFlow" % b.path, b.where(bi), "Output::CloseFlow constructed outside close_flow")
    rem_bbs = [s["bb"] for b, s in removers if b.path == cf.path]
    w_close = {}
    for b, bi in closes:
        if b.path == cf.path:
            w_close[bi] = w_close.get(bi, 0) + 1
    if rem_bbs:
        # paths through removal: counts of CloseFlow must be {1}; paths avoiding removal: {0}
        through = set()
        for rb_ in rem_bbs:
            pre = lib.path_counts(_prefix(cf, rb_), w_close) if False else None
        allc = _counts_split(cf, rem_bbs, w_close)
        key = "%s|paths" % cf.path
        if allc["with"] == {1} and allc["without"] <= {0}:
            rc.ok(key, cf.where(), "paths through flows.remove emit CloseFlow counts %s; paths without removal %s" % (sorted(allc["with"]), sorted(allc["without"])))
        else:
            rc.violation(key, cf.where(), "CloseFlow count per path: with removal %s (want {1}), without removal %s (want {0})" % (sorted(allc["with"]), sorted(allc["without"])))
        # idempotence guard: removal dominated by the phase != Closing edge
    # ---------------- R-C19-d isolation skeleton ---------------------------
    rd = chk.rule("R-C19-d", "T4+T12", "SendToClient.dst is read from the flow's own client field", floor=1)
    n = 0
    for b in F.grep('"var":"SendToClient"'):
        if "protocol::udp::manager" not in b.path:
            continue
        for bi, si, s in lib.agg_sites(b, "protocol::udp::Output", "SendToClient"):
            n += 1
            rd.fn(b.path)
            key = "%s|SendToClient.dst" % b.path
            tl = pl_local(op_place(s["rv"]["ops"][0]))
            # the Transmit aggregate
            ok = False
            for d in b.defs().get(tl, []):
                if d[2] == "assign" and d[3]["k"] == "agg" and d[3].get("var") == "Transmit":
                    names = d[3]["fn"]
                    dst = d[3]["ops"][names.index("dst")]
                    sl = guards.slice_of_operand(b, dst)
                    flds = {(a.split("::")[-1], f) for a, f in sl["fields"]}
                    if ("UdpFlow", "client") in flds and not ({("UdpFlow", "backend_addr")} & flds) and not (sl["params"] - {1, 2}):
                        ok = True
                    detail = "dst slice fields=%s params=%s" % (sorted(flds), sorted(sl["params"]))
            if ok:
                rd.ok(key, b.where(bi, si), detail)
            else:
                rd.violation(key, b.where(bi, si), "SendToClient.dst does not come only from UdpFlow.client of the looked-up flow: " + detail)


def _counts_split(body, rem_bbs, weight):
    """count sets of events for return paths that pass through one of rem_bbs vs. those that do not"""
    sc = body.succ()
    res = {"with": set(), "without": set()}
    seen = set()
    st = [(0, 0, False)]
    while st:
        b, c, r = st.pop()
        if (b, c, r) in seen:
            continue
        seen.add((b, c, r))
        c2 = min(2, c + weight.get(b, 0))
        r2 = r or b in rem_bbs
        if body.blocks[b]["t"]["k"] == "ret":
            res["with" if r2 else "without"].add(c2)
        for y in sc[b]:
            st.append((y, c2, r2))
    return res


def _prefix(b, x):
    return b


def run_thorough(F, chk):
    import witness
    witness.apply(chk, "R-C19-a-w", "UdpCapIsPrivate", "compile_fail witness: UdpManager.max_flows is private across crates")
