"""Engine C: compile-time witnesses (compile_fail doctests with compiling twins + const assertions) in
/verif/witness, run with `cargo +nightly test --doc --offline` (nothing is executed: twins are no_run)."""
import hashlib, json, os, re, shutil, subprocess
import facts

WDIR = os.path.join(facts.VERIF, "witness")


def run():
    """-> {doctest name: 'ok'|'FAILED'} plus key '__build__': error text or ''"""
    key, _ = facts.source_key("Q")
    src = open(os.path.join(WDIR, "src", "lib.rs"), "rb").read()
    key = key + hashlib.sha256(src).hexdigest()[:8]
    cache = os.path.join(facts.CACHE, "witness-%s.json" % key)
    if os.path.exists(cache):
        return json.load(open(cache))
    shutil.copy(os.path.join(facts.REPO, "Cargo.lock"), os.path.join(WDIR, "Cargo.lock"))
    env = dict(os.environ, CARGO_TARGET_DIR=os.path.join(facts.CACHE, "target-witness"), CARGO_NET_OFFLINE="true")
    r = subprocess.run(["cargo", "+nightly", "test", "--doc", "--offline"], cwd=WDIR, env=env, capture_output=True, text=True)
    out = {"__build__": ""}
    for m in re.finditer(r"^test src/lib\.rs - (\S+) \(line (\d+)\)( - compile fail| - compile)? \.\.\. (ok|FAILED)", r.stdout, re.M):
        out["%s@%s%s" % (m.group(1), m.group(2), " compile_fail" if (m.group(3) or "").endswith("fail") else " twin")] = m.group(4)
    if not [k for k in out if k != "__build__"]:
        out["__build__"] = (r.stderr or r.stdout)[-1500:]
    for old in [f for f in os.listdir(facts.CACHE) if f.startswith("witness-") and f.endswith(".json")]:
        os.remove(os.path.join(facts.CACHE, old))
    json.dump(out, open(cache, "w"))
    return out


def apply(chk, rule_id, struct_name, what):
    """record the verdicts of all doctests attached to `struct_name` as obligations of rule_id"""
    res = run()
    r = chk.rule(rule_id, "T11", what, floor=2)
    r.only_cfgs = {"Q"}
    if res.get("__build__"):
        r.violation("%s|witness crate builds" % struct_name, "witness/src/lib.rs",
                    "the witness crate does not build against /repo any more (a const assertion failed or an API it names is gone): " + res["__build__"][-400:])
        return
    mine = {k: v for k, v in res.items() if k.startswith(struct_name + "@")}
    if not mine:
        r.broke("no doctest found for %s" % struct_name)
    for k, v in sorted(mine.items()):
        kind = "compile_fail" if "compile_fail" in k else "twin"
        n = sorted(x for x in mine if kind in x).index(k)
        key = "%s|%s#%d" % (struct_name, kind, n)
        if v == "ok":
            r.ok(key, "witness/src/lib.rs:%s" % k.split("@")[1].split()[0], "compiles" if kind == "twin" else "rejected with E0616 (private field)")
        elif kind == "twin":
            r.broke("twin doctest of %s no longer compiles (witness path stale)" % struct_name)
        else:
            r.violation(key, "witness/src/lib.rs:%s" % k.split("@")[1].split()[0], "%s: the offending assignment now compiles - the field became writable from outside its crate" % struct_name)
