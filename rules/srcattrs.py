"""Inert (derive-helper) attributes such as #[serde(..)] are dropped before HIR; they are read from the
source lines directly above the field whose position the compiler reported."""
import os
from facts import REPO

_cache = {}


def _lines(path):
    p = path if os.path.isabs(path) else os.path.join(REPO, path)
    if p not in _cache:
        try:
            _cache[p] = open(p, encoding="utf-8", errors="replace").read().split("\n")
        except OSError:
            _cache[p] = None
    return _cache[p]


def attrs_above(file, line):
    """attribute texts (joined multi-line) directly above 1-based `line`"""
    ls = _lines(file)
    if ls is None:
        return None
    out = []
    i = line - 2
    cur = []
    depth = 0
    while i >= 0:
        s = ls[i].strip()
        if depth > 0 or s.endswith("]") and not s.startswith("#[") and not s.startswith("//") and s != "" and cur == [] and _looks_attr_tail(ls, i):
            # inside a multi-line attribute (walking upwards)
            cur.insert(0, s)
            depth = 1
            if s.startswith("#["):
                out.append(" ".join(cur)); cur = []; depth = 0
            i -= 1
            continue
        if s.startswith("#["):
            out.append(s)
        elif s.startswith("//") or s == "":
            if s == "":
                break
        else:
            break
        i -= 1
    return out


def _looks_attr_tail(ls, i):
    # walk up to find a line starting with '#[' before hitting a line ending with ',' or '{' or ';'
    j = i
    while j >= 0:
        s = ls[j].strip()
        if s.startswith("#["):
            return True
        if s.endswith((",", "{", ";", "}")) and j != i:
            return False
        j -= 1
    return False
