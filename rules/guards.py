"""Branch-condition normalisation and edge-removal reachability (templates T3/T5)."""
from mir import op_place, op_local, op_const, pl_local, pl_proj, callee_of, proj_fields

NEG = {"Lt": "Ge", "Ge": "Lt", "Gt": "Le", "Le": "Gt", "Eq": "Ne", "Ne": "Eq"}
SWAP = {"Lt": "Gt", "Gt": "Lt", "Le": "Ge", "Ge": "Le", "Eq": "Eq", "Ne": "Ne"}


def cond_atom(body, l, depth=0, at=None):
    """Normalise the definition of condition local `l` into
    (neg, atom) where atom is one of
      ('cmp', op, operandA, operandB)      -- MIR BinaryOp comparison
      ('call', callee, terminator)         -- boolean result of a call
      ('place', place)                     -- copy of a place (bool field, bool local)
      ('discr', place, adt)                -- discriminant read
      ('const', v)
      ('unknown',)"""
    neg = False
    seen = 0
    while seen < 12:
        seen += 1
        ds = body.defs().get(l, [])
        full = [d for d in ds if d[2] in ("assign", "call")]
        if len(full) > 1 and at is not None:
            # flow-sensitive: only the assignments that reach the block where the local is read
            rd = body.reaching_defs(l, at)
            full = [d for d in rd if d[2] in ("assign", "call")]
            if full and full[0][0] == at and full[0][1] is None:
                full = [d for d in ds if d[2] in ("assign", "call")]    # defined by this block's own terminator: be conservative
        if l in body.borrowed():
            # the local can change through a pointer (e.g. a flag captured by a closure): keep it symbolic
            return neg, ("multi", l)
        if len(full) != 1:
            # multiple assignments (e.g. && / || lowering or flag): not a simple atom
            return neg, ("multi", l)
        bi, si, kind, payload = full[0]
        if at is not None:
            at = bi
        if kind == "call":
            return neg, ("call", callee_of(payload), payload)
        rv = payload
        k = rv["k"]
        if k == "un" and rv["op"] == "Not":
            neg = not neg
            nl = op_local(rv["a"])
            if nl is None:
                p = op_place(rv["a"])
                return neg, (("place", p) if p is not None else ("const", op_const(rv["a"])))
            l = nl
            continue
        if k == "bin" and rv["op"] in NEG:
            return neg, ("cmp", rv["op"], rv["a"], rv["b"])
        if k == "use":
            p = op_place(rv["a"])
            if p is None:
                return neg, ("const", op_const(rv["a"]))
            if isinstance(p, int):
                l = p
                continue
            return neg, ("place", p)
        if k == "discr":
            return neg, ("discr", rv["pl"], rv["adt"])
        return neg, ("unknown",)
    return neg, ("unknown",)


def switch_edges(body, bb):
    """for a switch block: (operand local or None, [(value:int, target)], else_target)"""
    t = body.blocks[bb]["t"]
    if t["k"] != "switch":
        return None
    return op_local(t["op"]), [(int(v), tg) for v, tg in t["ts"]], t["else"]


def bool_edges(body, bb):
    """For a boolean 2-way switch return (false_target, true_target) else None"""
    se = switch_edges(body, bb)
    if se is None:
        return None
    l, ts, el = se
    if len(ts) == 1 and ts[0][0] == 0:
        return ts[0][1], el
    return None


def reach_without_edges(body, removed_edges, start=0):
    """blocks reachable from `start` when the given CFG edges (a, b) are removed"""
    removed = set(removed_edges)
    sc = body.succ()
    seen = {start}
    st = [start]
    while st:
        x = st.pop()
        for y in sc[x]:
            if (x, y) in removed or y in seen:
                continue
            seen.add(y)
            st.append(y)
    return seen


def slice_of_operand(body, op):
    l = None
    p = op_place(op)
    res = {"locals": set(), "callees": set(), "fields": set(), "consts": set(), "params": set()}
    if p is None:
        res["consts"].add(op.get("c"))
        if "constdef" in op:
            res["consts"].add(op["constdef"])
        return res
    res = body.slice_back([pl_local(p)])
    for f in proj_fields(p):
        res["fields"].add((f[0], f[2]))
    return res


def bool_switches(body):
    """all 2-way boolean switches: yields (bb, false_target, true_target, neg, atom)
    with polarity already applied: `true_target` is taken when atom (un-negated) is TRUE."""
    for bi in sorted(body.reachable()):
        be = bool_edges(body, bi)
        if be is None:
            continue
        l = op_local(body.blocks[bi]["t"]["op"])
        if l is None:
            continue
        if body.locals[l] != "bool":
            continue
        neg, atom = cond_atom(body, l, at=bi)
        f, t = be
        if neg:
            f, t = t, f
        yield bi, f, t, atom
