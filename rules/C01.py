"""C01 - bodies arrive complete, unmodified, in order (structural necessary conditions)."""
import alias, bounds, cover, guards, lib, loops
from mir import callee_of, op_place, op_local, op_const, pl_local, proj_fields

MUX = "sozu_lib::protocol::mux::"
H2 = MUX + "h2::ConnectionH2"
H1 = MUX + "h1::ConnectionH1"
READY = "sozu_lib::Readiness"
ARM = (READY + "::arm_writable", READY + "::signal_pending_write")
MUXT = "<sozu_lib::protocol::mux::Mux<Front, L> as sozu_lib::protocol::SessionState>::"
FRT = "<sozu_lib::socket::FrontRustls as sozu_lib::socket::SocketHandler>::"


class ArmSummary:
    """does function f pass an arming event on every returning path? (bounded recursion)"""

    def __init__(self, F, extra=()):
        self.F = F
        self.memo = {}
        self.extra = set(extra)

    def arm_blocks(self, b, depth=0):
        out = []
        for bi, t in b.calls():
            c = callee_of(t)
            if c in ARM or c in self.extra or c.split("::")[-1] in ("force_disconnect",):
                out.append(bi)
            elif depth < 3 and self.F.has(c) and c.startswith(MUX) and self.always(c, depth + 1):
                out.append(bi)
        return out

    def always(self, path, depth=0):
        if path in self.memo:
            return self.memo[path]
        self.memo[path] = False
        b = self.F.body(path)
        arms = self.arm_blocks(b, depth)
        cut = b.reach_from([0], removed=arms)
        res = bool(arms) and not [r for r in b.returns() if r in cut]
        self.memo[path] = res
        return res


def write_pass(F):
    """ConnectionH2 methods that only run inside the write pass (every caller chain starts at writable)"""
    wr = H2 + "::<Front>::writable"
    inpass = {wr}
    changed = True
    cand = [p for p in F.paths() if p.startswith(H2 + "::<Front>::") and "{closure" not in p]
    callers = {p: set() for p in cand}
    for p in F.paths():
        if not p.startswith(MUX):
            continue
        b = F.body(p)
        for bi, t in b.calls():
            c = callee_of(t)
            if c in callers:
                callers[c].add(b.root)
    while changed:
        changed = False
        for p in cand:
            if p not in inpass and callers[p] and callers[p] <= inpass:
                inpass.add(p)
                changed = True
    return inpass


def run(F, chk):
    chk.explanation = (
        "Structural necessary conditions of complete delivery under edge-triggered epoll, taken from the project's own "
        "truncation post-mortems and decided on MIR: (a) whoever queues bytes into sozu-owned buffers outside the write pass "
        "arms the writer on every returning path (H2 control frames, default answers, RST queue, end_stream actions, new "
        "streams); (b) the TLS scalar and vectored write paths agree on retry loop, error classes, follow-up flushes and "
        "result mapping; (c) the session is closed only past the `nothing left to flush` edge; (d) no HTTP(S) path shuts a "
        "socket down with Shutdown::Both (RST discards unsent data); (e) WRITABLE interest is withdrawn only when nothing is "
        "pending; (f) the buffer-size constants can hold a maximum H2 frame.")
    chk.not_decided = "byte equality, ordering, fragmentation/pacing schedules, window arithmetic, kernel socket behaviour"
    summ = ArmSummary(F)
    # ---------------- R-C01-a -----------------------------------------------------
    ra = chk.rule("R-C01-a", "T3", "queue bytes => arm the writer on every returning path", floor=10)
    wp = write_pass(F)
    chk.extra["C01_write_pass_functions"] = sorted(p.split("::")[-1] for p in wp)
    n = 0
    for b in F.grep("ConnectionH2|zero"):
        if not b.path.startswith(H2) or "{closure" in b.path:
            continue
        og = alias.Origins(b)
        k = 0
        for bi, t in b.calls():
            c = callee_of(t)
            if not c.endswith("Buffer::<T>::fill"):
                continue
            a0 = op_place(t["args"][0])
            if a0 is None or not any((H2, "zero") in path for (r, path) in og.of(pl_local(a0))):
                continue
            key = "%s|zero.fill#%d" % (b.path, k)
            k += 1
            ra.fn(b.path)
            sl = guards.slice_of_operand(b, t["args"][1])
            produces = any("::serializer::gen_" in x for x in sl["callees"])
            if any(x.endswith("::socket_read") for x in sl["callees"]) and not produces:
                ra.info(key, b.where(bi), "read path: the fill accounts bytes received from the socket (zero doubles as the frame-header read buffer)")
                continue
            if b.path in wp:
                ra.info(key, b.where(bi), "inside the write pass (ConnectionH2::writable dominates it in the call graph): the WRITABLE event that started the pass is still set")
                continue
            arms = summ.arm_blocks(b)
            cut = b.reach_from([t["to"]], removed=arms)
            esc = [r for r in b.returns() if r in cut]
            if arms and not esc:
                ra.ok(key, b.where(bi), "every returning path after the fill arms the writer / disconnects")
                n += 1
            else:
                ra.violation(key, b.where(bi), "control-frame bytes are queued into ConnectionH2.zero and a path returns without arm_writable()/signal_pending_write(): under edge-triggered epoll nothing wakes the writer and the frame (and everything behind it) stays queued")
    # answers helpers, rst queue, start_stream
    for p, what in ((MUX + "answers::set_default_answer_with_retry_after", "default answer installed"),
                    (MUX + "answers::forcefully_terminate_answer", "answer forcefully terminated")):
        b = F.body(p)
        ra.fn(p)
        key = "%s|arms" % p
        if summ.always(p):
            ra.ok(key, b.where(), "every returning path arms the writer")
        else:
            ra.violation(key, b.where(), "%s without arming the frontend writer on every path: the answer is never flushed" % what)
    er = F.body(MUX + "h2::enqueue_rst_into")
    ra.fn(er.path)
    pushes = [bi for bi, t in er.calls() if callee_of(t).endswith("::push_back") or callee_of(t).endswith("Vec::<T, A>::push")]
    arms = summ.arm_blocks(er)
    key = "%s|push=>arm" % er.path
    if pushes:
        cut = set()
        for x in pushes:
            cut |= er.reach_from([er.blocks[x]["t"]["to"]], removed=arms)
        if arms and not [r for r in er.returns() if r in cut]:
            ra.ok(key, er.where(pushes[0]), "after queueing a RST_STREAM every returning path arms the writer")
        else:
            ra.violation(key, er.where(pushes[0]), "a RST_STREAM is queued and a path returns without arming the writer")
    else:
        ra.broke("enqueue_rst_into: no queue push found")
    ss = F.body(H2 + "::<Front>::start_stream")
    ra.fn(ss.path)
    ins = [bi for (b2, bi, c) in lib.field_mut_calls(F, H2, "streams") if b2.path == ss.path and c.endswith("::insert")]
    if ra.require(ins, "start_stream: streams.insert not found"):
        arms = summ.arm_blocks(ss)
        cut = ss.reach_from([ss.blocks[ins[0]]["t"]["to"]], removed=arms)
        key = "%s|insert=>arm" % ss.path
        if arms and not [r for r in ss.returns() if r in cut]:
            ra.ok(key, ss.where(ins[0]), "a newly opened backend stream arms the writer on every path")
        else:
            ra.violation(key, ss.where(ins[0]), "a new backend stream is registered and a path returns without arming the writer: its request is never sent")
    chunk_size_rule(F, chk)
    window_sign_rule(F, chk)
    # a connection parked with response bytes still owed hands those bytes to the next request as its body (R-C02-f)
    import C02
    C02.keepalive_rule(F, chk, rid="R-C01-i")
    # ---------------- R-C01-b -----------------------------------------------------
    rb = chk.rule("R-C01-b", "T8", "TLS scalar and vectored write paths agree", floor=5)
    sw, sv = F.body(FRT + "socket_write"), F.body(FRT + "socket_write_vectored")
    rb.fn(sw.path, sv.path)

    def sig(b):
        calls = {}
        # the function, its closures and the private helpers of the socket module it delegates to
        fam = [q for q in cover.reach_functions(F, b.path, depth=2, prefixes=("sozu_lib::socket::", "<sozu_lib::socket::"))
               if q == b.path or q.startswith(b.path + "::") or not F.body(q).rec.get("pub")]
        fam = [q for q in fam if not (F.body(q).trait and q != b.path and "{closure" not in q)]
        for fp in fam:
            fb = F.body(fp)
            for bi, t in fb.calls():
                c = callee_of(t)
                if fb.blocks[bi]["t"].get("x") and "log" in t.get("m", ""):
                    continue
                calls[c] = calls.get(c, 0) + 1
        flatb = lib.flat(F, b)
        writes = {f for (_, f) in cover.body_field_writes(flatb)}
        kinds = set()
        results = set()
        for fp in fam:
            fb = F.body(fp)
            for bi, si, s in fb.stmts():
                rv = s.get("rv")
                if rv and rv["k"] == "agg" and rv.get("ak") == "adt":
                    if rv["adt"].endswith("io::error::ErrorKind"):
                        kinds.add(rv["var"])
                    if rv["adt"].endswith("::SocketResult"):
                        results.add(rv["var"])
            # ErrorKind constants appear as promoted / switch values; use discriminant switches on ErrorKind
            for bi in fb.reachable():
                t = fb.blocks[bi]["t"]
                if t["k"] == "switch":
                    l = op_local(t["op"])
                    d = fb.single_def(l) if l is not None else None
                    if d and d[2] == "assign" and d[3]["k"] == "discr" and d[3]["adt"].endswith("ErrorKind"):
                        kinds |= {int(v) for v, _ in t["ts"]}
        nb = 0
        for lb in [b] + [F.body(q) for q in fam if q != b.path and "{closure" not in q]:
            bl = [x for x in loops.natural_loops(lb) if loops.is_iterator_loop(lb, x[0], x[1]) is None]
            nb += sum(1 for h, body, backs in bl if loops.budget(lb, h, body, backs)[0])
        return calls, writes, kinds, results, nb
    cw, ww, kw, rw, nbw = sig(sw)
    cv, wv, kv, rv_, nbv = sig(sv)
    def follow(calls):
        return {x for x in ("write_tls", "wants_write", "process_new_packets") if any(c.endswith("::" + x) for c in calls)}
    checks = [
        ("budgeted retry loop", nbw >= 1 and nbv >= 1, "scalar %d / vectored %d budgeted loop(s)" % (nbw, nbv)),
        ("ErrorKind classes distinguished", kw == kv and kw, "scalar %s vs vectored %s" % (sorted(map(str, kw)), sorted(map(str, kv)))),
        ("fields written", ww == wv, "scalar %s vs vectored %s" % (sorted(ww), sorted(wv))),
        ("TLS follow-up calls", follow(cw) == follow(cv) and "write_tls" in follow(cw), "scalar %s vs vectored %s" % (sorted(follow(cw)), sorted(follow(cv)))),
        ("SocketResult variants produced", rw == rv_ and rw, "scalar %s vs vectored %s" % (sorted(rw), sorted(rv_))),
    ]
    for name, ok, detail in checks:
        key = "socket_write~socket_write_vectored|%s" % name
        if ok:
            rb.ok(key, sw.where(), detail)
        else:
            rb.violation(key, sv.where(), "the TLS scalar and vectored write paths disagree on %s: %s" % (name, detail))
    # ---------------- R-C01-c -----------------------------------------------------
    rc = chk.rule("R-C01-c", "T5", "session closed only past the `nothing left to flush` edge", floor=2)
    rdy = F.body(MUXT + "ready")
    rc.fn(rdy.path)
    closes = [(bi, si) for bi, si, s in rdy.stmts() if s.get("lhs") == 0 and s.get("rv", {}).get("k") == "agg" and s["rv"].get("adt", "").endswith("::SessionResult") and s["rv"].get("var") == "Close"]
    def flush_pred(sb, truth, atom):
        if atom[0] != "call" or truth is not False:
            return False
        return atom[1].endswith("::delay_close_for_frontend_flush") or atom[1].endswith("::has_pending_write")
    edges = lib.edges_where(rdy, flush_pred)
    rc.require(closes, "Mux::ready returns no SessionResult::Close")
    unguarded = [x for x in closes if not (edges and lib.guarded_by(rdy, x[0], edges))]
    chk.extra["C01_ready_close_sites"] = {"total": len(closes), "behind_flush_edge": len(closes) - len(unguarded)}
    # closes that are not behind a flush test must be on error paths: they must be dominated by an error decision
    for k, (bi, si) in enumerate(closes):
        key = "%s|Close#%d" % (rdy.path, k)
        if (bi, si) not in unguarded:
            rc.ok(key, rdy.where(bi, si), "behind delay_close_for_frontend_flush()==false / !has_pending_write()")
        else:
            rc.info(key, rdy.where(bi, si), "Close outside the flush guard (unrecoverable-error or dead-frontend path); listed for review, not decided")
    if closes and len(unguarded) <= chk_close_allow(len(closes)):
        rc.ok("%s|guarded closes >= floor" % rdy.path, rdy.where(), "%d of %d Close returns are behind the flush guard" % (len(closes) - len(unguarded), len(closes)), nontrivial=False)
    else:
        rc.violation("%s|guarded closes >= floor" % rdy.path, rdy.where(), "only %d of %d SessionResult::Close returns of Mux::ready are still behind the frontend-flush guard" % (len(closes) - len(unguarded), len(closes)))
    # ---------------- R-C01-d -----------------------------------------------------
    rd = chk.rule("R-C01-d", "T4", "no Shutdown::Both on HTTP(S) sockets", floor=4)
    nsites = 0
    for b, bi, t in F.call_sites("mio::net::tcp::stream::TcpStream::shutdown"):
        nsites += 1
        how = None
        l = op_local(t["args"][1])
        T = bounds.Terms(b)
        seen = set()
        work = [l]
        while work:
            x = work.pop()
            if x in seen or x is None:
                continue
            seen.add(x)
            for d in b.defs().get(x, []):
                if d[2] == "assign" and d[3]["k"] == "agg" and d[3].get("adt", "").endswith("net::Shutdown"):
                    how = d[3]["var"]
                elif d[2] == "assign" and d[3]["k"] == "use":
                    work.append(op_local(d[3]["a"]))
        key = "%s|shutdown#%s" % (b.path, lib.site_id(b, bi).split("#")[-1])
        in_http = any(m in b.path for m in ("protocol::mux", "sozu_lib::http::", "sozu_lib::https::", "<sozu_lib::http::", "<sozu_lib::https::"))
        rd.fn(b.path)
        if how is None:
            rd.broke("cannot resolve the Shutdown operand at %s" % b.where(bi))
        elif in_http and how == "Both":
            rd.violation(key, b.where(bi), "TcpStream::shutdown(Shutdown::Both) on an HTTP(S) path: the kernel may answer later data with RST and discard bytes it has not sent yet")
        elif in_http:
            rd.ok(key, b.where(bi), "Shutdown::%s" % how)
        else:
            rd.info(key, b.where(bi), "Shutdown::%s outside the HTTP mux (positive control: the query sees it)" % how)
    rd.require(nsites >= 6, "only %d TcpStream::shutdown sites seen (positive control floor 6)" % nsites)
    # ---------------- R-C01-e -----------------------------------------------------
    re_ = chk.rule("R-C01-e", "T5", "WRITABLE interest withdrawn only when nothing is pending", floor=1)
    fw = lib.flat(F, F.body(H2 + "::<Front>::finalize_write"), keep=("::socket_wants_write",))
    re_.fn(fw.path)
    removes = []
    for bi, t in fw.calls():
        c = callee_of(t)
        if c.endswith("Ready::remove") or c.endswith("::remove"):
            sl = guards.slice_of_operand(fw, t["args"][0])
            if any(f == "interest" for _, f in sl["fields"]):
                removes.append(bi)
    if re_.require(removes, "finalize_write: no interest.remove(..) found"):
        need = {
            "socket_wants_write": lambda sb, truth, atom: atom[0] == "call" and atom[1].endswith("::socket_wants_write") and truth is False,
            "pending_rst_streams empty": lambda sb, truth, atom: atom[0] == "call" and atom[1].endswith("::is_empty") and truth is True and any(f == "pending_rst_streams" for a in atom[2]["args"] for _, f in guards.slice_of_operand(fw, a)["fields"]),
            "pending_window_updates empty": lambda sb, truth, atom: atom[0] == "call" and atom[1].endswith("::is_empty") and truth is True and any(f == "pending_window_updates" for a in atom[2]["args"] for _, f in guards.slice_of_operand(fw, a)["fields"]),
            "expect_write none": lambda sb, truth, atom: atom[0] == "call" and ((atom[1].endswith("Option::<T>::is_none") and truth is True) or (atom[1].endswith("Option::<T>::is_some") and truth is False)) and any(f == "expect_write" for a in atom[2]["args"] for _, f in guards.slice_of_operand(fw, a)["fields"]),
        }
        for name, pred in need.items():
            edges = lib.edges_where(fw, pred)
            if name.endswith(" empty"):
                edges = lib.empty_edges(fw, name.split()[0])
            key = "%s|WRITABLE removal behind %s" % (fw.path, name)
            if edges and all(lib.guarded_by(fw, x, edges) for x in removes):
                re_.ok(key, fw.where(removes[0]), "interest.remove(WRITABLE) dominated by %s" % name)
            else:
                re_.violation(key, fw.where(removes[0]), "WRITABLE interest can be withdrawn without the `%s` test having held: queued bytes would wait for an event that edge-triggered epoll never delivers" % name)
    # ---------------- R-C01-f -----------------------------------------------------
    rf = chk.rule("R-C01-f", "T6", "buffer-size constants can hold a maximum H2 frame", floor=2)
    hmin = F.const("sozu_command_lib::config::H2_MIN_BUFFER_SIZE")
    dflt = F.const("sozu_command_lib::config::DEFAULT_BUFFER_SIZE")
    fhs = [v for k, v in F.consts.items() if k.endswith("parser::FRAME_HEADER_SIZE")]
    dmf = F.const(MUX + "h2::DEFAULT_MAX_FRAME_SIZE")
    fh = int(fhs[0]["v"]) if fhs else 9
    for name, ok, detail in (("H2_MIN_BUFFER_SIZE >= FRAME_HEADER_SIZE + DEFAULT_MAX_FRAME_SIZE", hmin >= fh + dmf, "%d >= %d + %d" % (hmin, fh, dmf)),
                             ("DEFAULT_BUFFER_SIZE >= H2_MIN_BUFFER_SIZE", dflt >= hmin, "%d >= %d" % (dflt, hmin))):
        if ok:
            rf.ok(name, "", detail)
        else:
            rf.violation(name, "", "constant relation broken: " + detail)


def chk_close_allow(total):
    # number of Close returns allowed outside the flush guard: frozen from today's tree by tables/C01.json
    import json, os
    t = json.load(open(os.path.join(os.path.dirname(os.path.abspath(__file__)), "..", "tables", "C01.json")))
    return t["ready_close_unguarded_max"]


def chunk_size_rule(F, chk):
    """R-C01-g: a zero-size chunk is the chunked-encoding terminator, so a ChunkHeader may only be emitted behind
    `n > 0` for the very n that is rendered as the chunk size."""
    r = chk.rule("R-C01-g", "T5+T12", "chunk header emitted only for a non-zero size, tested on the value that is rendered", floor=1)
    n = 0
    for b in F.grep('"var":"ChunkHeader"'):
        if not b.path.startswith(MUX) or b.derived:
            continue
        for bi, si, s in b.stmts():
            rv = s.get("rv")
            if not (rv and rv["k"] == "agg" and rv.get("ak") == "adt" and rv["adt"].endswith("::Block") and rv["var"] == "ChunkHeader"):
                continue
            sl = guards.slice_of_operand(b, rv["ops"][0])
            if not any(c.endswith("Write::write_fmt") or c.endswith("fmt::format") or "itoa" in c for c in sl["callees"]):
                continue    # a ChunkHeader copied from an existing block (template), not rendered from a size
            n += 1
            r.fn(b.path)
            def root(l):
                """follow plain copies, (re)borrows and the one-element tuples format_args! builds, to the local whose
                value is meant"""
                for _ in range(12):
                    d = b.single_def(l) if l is not None else None
                    if not (d and d[2] == "assign"):
                        break
                    rv2 = d[3]
                    if rv2["k"] in ("use", "cast"):
                        pl = op_place(rv2["a"])
                        if isinstance(pl, int):
                            l = pl
                            continue
                        if isinstance(pl, dict) and len(pl["p"]) == 1 and pl["p"][0].startswith("t|"):
                            dd = b.single_def(pl["l"])
                            if dd and dd[2] == "assign" and dd[3]["k"] == "agg" and dd[3].get("ak") == "tuple":
                                l = op_local(dd[3]["ops"][int(pl["p"][0][2:])])
                                continue
                        break
                    if rv2["k"] in ("ref", "raw"):
                        pl = rv2["pl"]
                        if isinstance(pl, int):
                            l = pl
                            continue
                        if pl["p"] == ["*"]:
                            l = pl["l"]
                            continue
                    break
                return l
            # the value(s) actually rendered: what is handed to fmt::rt::Argument::new_* for this header's text
            rendered = set()
            for x, tt in b.calls():
                if "fmt::rt::Argument" in callee_of(tt) and isinstance(tt.get("dest"), int) and tt["dest"] in sl["locals"] and tt["args"]:
                    rendered.add(root(op_local(tt["args"][0])))
            rendered.discard(None)
            edges = []
            for sb, f, t, atom in guards.bool_switches(b):
                if atom[0] != "cmp":
                    continue
                for tgt in (f, t):
                    rel = lib.relation_on_edge(b, sb, tgt)
                    if not rel:
                        continue
                    op, sa, sbb, at = rel
                    if op in ("Gt", "Ne") and any(str(c).startswith("0_") for c in sbb["consts"]) and not sbb["locals"]:
                        # the tested value must be THE rendered value (same local up to plain copies), not merely related
                        tested = root(op_local(at[2]))
                        if tested is not None and tested in rendered:
                            edges.append((sb, tgt))
                    if op in ("Lt", "Ne") and any(str(c).startswith("0_") for c in sa["consts"]) and not sa["locals"]:
                        tested = root(op_local(at[3]))
                        if tested is not None and tested in rendered:
                            edges.append((sb, tgt))
            key = "%s|ChunkHeader#%d" % (b.path, n)
            if edges and lib.guarded_by(b, bi, edges):
                r.ok(key, b.where(bi, si), "behind `size > 0` on the value rendered into the chunk header")
            else:
                r.violation(key, b.where(bi, si), "a chunk header can be emitted without a `> 0` test on the size that is rendered into it: a zero-size chunk terminates the chunked body early (truncation)")


def window_sign_rule(F, chk):
    """R-C01-h: HTTP/2 send windows are signed: a SETTINGS_INITIAL_WINDOW_SIZE shrink drives a stream window below zero.
    The code that resumes a stalled body (re-arm the writer when a WINDOW_UPDATE / SETTINGS change opens the window)
    decides `was closed` by comparing the old window with zero; that test must be an ORDER test (<= 0 / > 0).  An
    equality test (== 0 / != 0) treats a negative window as open, the writer is never re-armed and the buffered rest of
    the body is never sent."""
    r = chk.rule("R-C01-h", "T6", "send windows are compared with zero by order, never by equality", floor=3)
    n_order = 0
    for b in F.grep("|window"):
        if not (b.path.startswith(MUX) or b.path.startswith("<" + MUX)) or b.derived or "::tests::" in b.path:
            continue
        for bi, si, st in b.stmts():
            rv = st.get("rv")
            if not (rv and rv["k"] == "bin" and rv["op"] in ("Eq", "Ne", "Lt", "Le", "Gt", "Ge")):
                continue
            sides = []
            for o in (rv["a"], rv["b"]):
                c = op_const(o)
                if c is not None:
                    sides.append(("const", c, o.get("ty", "")))
                else:
                    # the window VALUE itself (a chain of plain copies ending at a field named `window`), not a
                    # quantity derived from it (gauge deltas, clamped copies)
                    pl = op_place(o)
                    for _ in range(6):
                        if isinstance(pl, int):
                            d = b.single_def(pl)
                            if d and d[2] == "assign" and d[3]["k"] == "use" and op_place(d[3]["a"]) is not None:
                                pl = op_place(d[3]["a"])
                                continue
                        break
                    fs = proj_fields(pl) if isinstance(pl, dict) else []
                    sides.append(("win" if fs and fs[-1][2] == "window" else "other", None, ""))
            kinds = [x[0] for x in sides]
            if "win" not in kinds or "const" not in kinds:
                continue
            cst = [x for x in sides if x[0] == "const"][0]
            if cst[1] != 0 or not cst[2].startswith("i"):
                continue
            if rv["op"] in ("Eq", "Ne"):
                r.fn(b.path)
                r.violation("%s|window %s 0" % (b.path, rv["op"]), b.where(bi, si), "a signed send window is tested with `%s 0`: after a SETTINGS shrink the window is negative, this test takes it for open, the writer is not re-armed when the window re-opens and the rest of the body is never sent" % ("==" if rv["op"] == "Eq" else "!="))
            else:
                n_order += 1
                r.fn(b.path)
                r.ok("%s|window order test#%d" % (b.path, n_order), b.where(bi, si), "window %s 0" % rv["op"], nontrivial=False)
    r.require(n_order >= 3, "only %d order comparisons of a send window with zero found (positive control)" % n_order)
