"""C11 - command channels: bounded growth, no wedging on a bad frame, decoder panic-freedom."""
import alias, bounds, guards, lib, cover
from mir import callee_of, op_place, op_local, pl_local, proj_fields

CH = "sozu_command_lib::channel::Channel"
CHF = CH + "::<Tx, Rx>::"
BUF = "sozu_command_lib::buffer::growable::Buffer"


def run(F, chk):
    chk.explanation = (
        "Structural necessary conditions of 'every message once, intact, within memory bounds' decided on the compiled "
        "channel code: (a) every Buffer::grow issued by Channel takes a size derived from grow_size()/max_buffer_size "
        "and sits behind a comparison with max_buffer_size, and max_buffer_size is never reassigned; (b) in the frame "
        "reader every error exit taken after the length prefix was decoded first consumes the offending bytes (otherwise "
        "the same bytes are re-read forever and every later message is stuck behind them); (c) the frame reader and the "
        "listener-manifest decoders contain no explicit panic and every slice they take is implied in-bounds by "
        "dominating comparisons; (d) Buffer's cursor fields cannot be written from outside its module.")
    chk.not_decided = "exactly-once in-order delivery for every split of the byte stream; behaviour of the peers"
    # ---------------- R-C11-a ---------------------------------------------------
    ra = chk.rule("R-C11-a", "T12+T5+T4", "bounded buffer growth", floor=3)
    n = 0
    for b, bi, t in F.call_sites(BUF + "::grow"):
        if not b.path.startswith(CH):
            continue
        n += 1
        ra.fn(b.path)
        key = "%s|%s" % (b.path, lib.site_id(b, bi).split(">")[-1])
        sl = guards.slice_of_operand(b, t["args"][1])
        dep = any(c.endswith("::grow_size") for c in sl["callees"]) or any(f == "max_buffer_size" for _, f in sl["fields"])
        # guard: some dominating comparison involving max_buffer_size
        edges = []
        for sb, f, tt, atom in guards.bool_switches(b):
            if atom[0] != "cmp":
                continue
            for tgt in (f, tt):
                rel = lib.relation_on_edge(b, sb, tgt)
                if rel and (any(fl == "max_buffer_size" for _, fl in rel[1]["fields"]) or any(fl == "max_buffer_size" for _, fl in rel[2]["fields"])):
                    if rel[0] in ("Lt", "Gt", "Le", "Ge"):
                        edges.append((sb, tgt))
        guarded = any(lib.guarded_by(b, bi, [e]) for e in edges)
        # the value may also come straight out of grow_size(), which caps it itself (verified below)
        from_gs = any(c.endswith("::grow_size") for c in sl["callees"]) and not any(f == "max_buffer_size" for _, f in sl["fields"] if False)
        if dep and (guarded or (from_gs and grow_size_caps(F))):
            ra.ok(key, b.where(bi), "size from grow_size()/max_buffer_size, behind a max_buffer_size comparison")
        else:
            ra.violation(key, b.where(bi), "Buffer::grow with %s%s" % ("" if dep else "a size not derived from grow_size()/max_buffer_size ", "" if guarded else "(not behind a comparison with max_buffer_size)"))
    writes = []
    for b in F.grep("f|%s|Channel|max_buffer_size" % CH):
        if (CH, "max_buffer_size") in cover.body_field_writes(b, CH):
            writes.append(b.path)
    if writes:
        ra.violation("max_buffer_size writers", "", "Channel.max_buffer_size is reassigned in %s" % writes)
    else:
        ra.ok("max_buffer_size writers", "", "never reassigned after construction", nontrivial=False)
    # ---------------- R-C11-b ---------------------------------------------------
    rb = chk.rule("R-C11-b", "T3", "an error exit of the frame reader never leaves the offending frame in place", floor=3)
    tr0 = F.body(CHF + "try_read_delimited_message")
    tr = lib.flat(F, tr0)          # private helpers of the reader are part of the reader
    n_own = len(tr0.locals)
    rb.fn(tr.path)
    anchor = [bi for bi, t in tr.calls() if t.get("fn", "").endswith("from_le_bytes")]
    consume = [bi for bi, t in tr.calls() if callee_of(t) == BUF + "::consume"]
    if rb.require(len(anchor) == 1 and consume, "try_read_delimited_message: length-prefix decode or consume() not found"):
        a = anchor[0]
        after = tr.reach_from([tr.blocks[a]["t"]["to"]])
        errs = []
        for bi, si, s in tr.stmts():
            rv = s.get("rv")
            if rv and rv["k"] == "agg" and rv.get("adt") == "core::result::Result" and rv["var"] == "Err" and bi in after:
                # name of the error variant
                name = "?"
                l = op_local(rv["ops"][0])
                d = tr.single_def(l) if l is not None else None
                if d and d[2] == "assign" and d[3]["k"] == "agg":
                    name = d[3].get("var", "?")
                errs.append((bi, name))
        for bi, t in tr.calls():
            if t.get("fn", "").endswith("FromResidual::from_residual") and bi in after:
                # `helper()?` on a spliced-in helper only forwards an error whose construction site (inside the helper)
                # is listed on its own
                if any(l >= n_own for a in t["args"] for l in guards.slice_of_operand(tr, a)["locals"]) and not tr.blocks[bi].get("of"):
                    continue
                errs.append((bi, "? (" + residual_name(tr, t) + ")"))
        noconsume = tr.reach_from([tr.blocks[a]["t"]["to"]], removed=consume)
        for bi, name in errs:
            key = "%s|exit %s" % (tr.path, name)
            if bi in noconsume:
                rb.violation(key, tr.where(bi), "error exit %s is reachable after the length prefix was decoded without consuming the frame: the same bytes are re-read on every call and all later messages are stuck behind them" % name)
            else:
                rb.ok(key, tr.where(bi), "passes through front_buf.consume(..)")
    # ---------------- R-C11-c ---------------------------------------------------
    rc = chk.rule("R-C11-c", "T9", "frame / manifest decoders: no explicit panic, slices implied in bounds", floor=6)
    decs = [CHF + "try_read_delimited_message", "sozu_command_lib::scm_socket::ScmSocket::receive_listeners",
            "sozu_command_lib::scm_socket::parse_addresses"]
    for p in decs:
        if not F.has(p):
            rc.broke("decoder %s not found" % p)
            continue
        for fp in F.family(p):
            # private helpers of a decoder (prefix parsing, ..) are part of the decoder; the recvmsg wrapper stays a call
            # (scm_guard argues from its contract)
            b = lib.flat(F, F.body(fp), keep=("::receive_msg_and_fds",))
            rc.fn(fp)
            pans = bounds.explicit_panics(b)
            for i, (bi, c, m) in enumerate(pans):
                rc.violation("%s|panic %s#%d" % (fp, c.split("::")[-1], i), b.where(bi), "explicit panic site %s%s in a decoder of untrusted bytes" % (c, (" via " + m) if m else ""))
            if not pans:
                rc.ok("%s|no explicit panic" % fp, b.where(), "", nontrivial=False)
            for j, (bi, kind, t) in enumerate(bounds.index_sites(b)):
                ok, why = bounds.check_site(b, bi, kind, t)
                key = "%s|%s#%d" % (fp, kind, j)
                if not ok and fp.endswith("ScmSocket::receive_listeners"):
                    ok, why = scm_guard(b, bi, kind, t)
                if ok:
                    rc.ok(key, b.where(bi), why)
                else:
                    rc.violation(key, b.where(bi), "slice/index not proven in bounds: " + why)
    buffer_resize_rule(F, chk)
    readiness_evidence_rule(F, chk)
    size_boundary_rule(F, chk)
    # ---------------- R-C11-d (same-crate half; the cross-crate half is the compile-fail witness) ----
    rd = chk.rule("R-C11-d", "T4", "Buffer's cursor fields are written only inside impl Buffer", floor=4)
    for fld in ("memory", "capacity", "position", "end"):
        bad = []
        n = 0
        for b in F.grep("f|%s|Buffer|%s" % (BUF, fld)):
            if (BUF, fld) in cover.body_field_writes(b, BUF):
                n += 1
                if not b.path.startswith(BUF + "::") and not b.path.startswith("<" + BUF):
                    bad.append(b.path)
        key = "Buffer.%s writers" % fld
        if bad:
            rd.violation(key, "", "written outside impl Buffer: %s" % bad)
        else:
            rd.ok(key, "", "%d writer(s), all inside impl Buffer" % n, nontrivial=False)


def buffer_resize_rule(F, chk):
    """R-C11-e: the backing memory of the growable buffer is never cut below the `end` cursor: every
    truncate/resize of Buffer.memory and every write of Buffer.capacity with value n is dominated by a comparison
    establishing end <= n, or capacity < n (growth; end <= capacity is the structure's invariant)."""
    r = chk.rule("R-C11-e", "T5", "Buffer memory is never truncated below the end cursor", floor=2)
    for p in sorted(F.paths()):
        if not p.startswith(BUF + "::") or "{closure" in p:
            continue
        # Buffer's own accessors (capacity(), available_data(), ..) are spliced in: `self.capacity` and
        # `self.capacity()` (whatever it is computed from) must look the same to the rule
        import inline
        b = inline.threaded(F, inline.inlined(F, F.body(p), policy="all", keep_pred=lambda f: not f.startswith(BUF + "::")))
        T = bounds.Terms(b)
        sites = []
        for bi, t in b.calls():
            c = callee_of(t)
            if c.endswith("Vec::<T, A>::truncate") or c.endswith("Vec::<T, A>::resize"):
                sl = guards.slice_of_operand(b, t["args"][0])
                if any(f == "memory" for _, f in sl["fields"]):
                    sites.append((bi, T.term(t["args"][1]), c.split("::")[-1]))
        for bi, si, s in b.stmts():
            if "lhs" in s and not isinstance(s["lhs"], int) and s["lhs"]["p"][-1].startswith("f|") and proj_fields(s["lhs"])[-1][2] == "capacity" \
                    and proj_fields(s["lhs"])[-1][0] == BUF and s["rv"]["k"] == "use":
                sites.append((bi, T.term(s["rv"]["a"]), "capacity="))
        for k, (bi, n, what) in enumerate(sites):
            r.fn(p)
            FX = bounds.Facts(b, bi)
            ends = [X for (X, Y) in FX.le if Y == n and X[0] == "place" and "|end" in X[1]]
            grows = [X for (X, Y) in FX.lt if Y == n and X[0] == "place" and "|capacity" in X[1]]
            # the capacity spelled as the length of the backing vector
            grows += [X for (X, Y) in FX.lt if Y == n and X[0] == "len" and isinstance(X[1], int) and
                      any(f == "memory" for _, f in b.slice_back([X[1]])["fields"])]
            key = "%s|%s#%d" % (p, what, k)
            if ends or grows:
                r.ok(key, b.where(bi), "dominated by %s" % ("end <= new size" if ends else "capacity < new size (growth)"))
            else:
                r.violation(key, b.where(bi), "the buffer's memory/capacity is set to a size that no dominating comparison relates to the `end` cursor: pending bytes beyond the new size are cut off (and later slicing panics)")


def scm_guard(b, bi, kind, t):
    """receive_listeners: the windows into the fixed FD array are sums of peer-declared counts; their exact
    bound needs arithmetic that is out of reach, so the *structural* necessary condition is checked: every
    such slice is dominated by `total <= MAX_FDS_OUT` and `total <= <number of FDs received>` on one and the
    same total; the one slice of the byte buffer is bounded by the size recvmsg reported (kernel contract)."""
    FX = bounds.Facts(b, bi)
    T = bounds.Terms(b)
    sl = op_local(t["args"][0])
    base = T.slice_base(sl) if sl is not None else None
    bty = b.locals[base] if isinstance(base, int) else ""
    if isinstance(base, tuple):
        bty = b.locals[base[1]]
    if "alloc::vec::Vec<u8>" in bty or bty.endswith("[u8]"):
        rl = op_local(t["args"][1])
        d = b.single_def(rl) if rl is not None else None
        if d and d[2] == "assign" and d[3]["k"] == "agg" and d[3].get("adt", "").endswith("RangeTo"):
            sl2 = guards.slice_of_operand(b, d[3]["ops"][0])
            if any(c.endswith("receive_msg_and_fds") for c in sl2["callees"]):
                return True, "byte window ends at the length reported by receive_msg_and_fds (recvmsg never reports more than the buffer it was given)"
        return False, "byte-buffer slice not bounded by the received size"
    consts = {}
    for (X, Y) in FX.le:
        consts.setdefault(X, []).append(Y)
    for X, ys in consts.items():
        has_max = any(y[0] == "const" and y[1] == 200 for y in ys) or any(y[0] == "place" and "MAX_FDS_OUT" in y[1] for y in ys)
        has_recv = any(y[0] in ("place", "local") for y in ys)
        if has_max and has_recv:
            return True, "FD window dominated by total<=MAX_FDS_OUT and total<=fds_received (structural guard; the sum arithmetic itself is not decided)"
    return False, "FD-array window not dominated by the total<=MAX_FDS_OUT / total<=fds_received guards"


def grow_size_caps(F):
    """Channel::grow_size returns Some(x) only with x = min(_, self.max_buffer_size) behind capacity < max"""
    g = F.body(CHF + "grow_size")
    T = bounds.Terms(g)
    oks = []
    for bi, si, s in g.stmts():
        rv = s.get("rv")
        if rv and rv["k"] == "agg" and rv.get("adt") == "core::option::Option" and rv["var"] == "Some":
            term = T.term(rv["ops"][0])
            good = term[0] == "min" and any(t[0] in ("place",) and "max_buffer_size" in t[1] for t in term[1:])
            oks.append(good)
    return bool(oks) and all(oks)


def residual_name(b, t):
    import t2
    a = t2.T2(None, b)
    src = a.residual_source(t)
    return (src or "?").split("::")[-1]


def run_thorough(F, chk):
    import witness
    witness.apply(chk, "R-C11-d-w", "BufferCursorIsPrivate", "compile_fail witness: Buffer cursor fields are private across crates")


def readiness_evidence_rule(F, chk):
    """R-C11-f: the channel's sockets are registered edge-triggered, so `readiness` may only lose READABLE / WRITABLE on
    evidence from the kernel: inside Channel::readable / Channel::writable every statement that clears bits of
    self.readiness (Ready::remove on it, or assigning it) must be dominated by the socket read/write call of that
    function (its WouldBlock / Ok(0) / error arms).  Clearing readiness because a *buffer* is full leaves bytes in the
    socket with no further edge to wake the reader: the rest of the stream is never delivered."""
    r = chk.rule("R-C11-f", "T5", "readiness bits are cleared only on evidence from the socket call", floor=4)
    CH = "sozu_command_lib::channel::Channel"
    n = 0
    for fn, io in (("readable", ("io::Read>::read", "::read")), ("writable", ("io::Write>::write", "::write"))):
        cands = [p for p in F.paths() if p.startswith(CH + "::<") and p.endswith("::" + fn) and "{closure" not in p]
        if not r.require(cands, "Channel::%s not found" % fn):
            continue
        b = lib.flat(F, F.body(cands[0]))
        r.fn(b.path)
        sys_calls = [bi for bi, t in b.calls() if (t.get("fn") or "").endswith(("std::io::Read::read", "std::io::Write::write"))
                     or callee_of(t).endswith(io[0])]
        if not r.require(sys_calls, "Channel::%s: socket %s call not found" % (fn, io[1])):
            continue
        sites = []
        for bi, t in b.calls():
            if callee_of(t).endswith("ready::Ready::remove") and t["args"]:
                sl = guards.slice_of_operand(b, t["args"][0])
                if any(f == "readiness" for _, f in sl["fields"]) and not any(f == "interest" for _, f in sl["fields"]):
                    sites.append((bi, None, "remove"))
        for bi, si, s2 in b.stmts():
            lhs = s2.get("lhs")
            if isinstance(lhs, dict) and any(f == "readiness" and a == CH for a, _, f in proj_fields(lhs)):
                sites.append((bi, si, "assign"))
        for i, (bi, si, how) in enumerate(sorted(sites, key=lambda x: (x[0], x[1] or 0))):
            n += 1
            key = "%s|readiness %s#%d" % (b.path, how, i)
            if any(b.dominates(sc, bi) for sc in sys_calls):
                r.ok(key, b.where(bi, si), "dominated by the socket call")
            else:
                r.violation(key, b.where(bi, si), "Channel::%s clears readiness without having called the socket: with edge-triggered registration no further event arrives for the bytes still in the kernel, and the rest of the stream is never delivered" % fn)
    r.require(n >= 4, "only %d readiness-clearing sites found in Channel::readable/writable" % n)


def size_boundary_rule(F, chk):
    """R-C11-g: `every message size up to the configured maximum` includes the maximum itself.  Writer and reader each
    refuse a frame by building ChannelError::MessageTooLarge behind a comparison with max_buffer_size; both comparisons
    must be strict (`len > max`): with `>=` on one side a frame of exactly max bytes is sent by the writer and refused
    forever by the reader (the channel wedges behind it)."""
    r = chk.rule("R-C11-g", "T8", "MessageTooLarge is raised only for sizes strictly above max_buffer_size", floor=2)
    n = 0
    for b0 in F.grep('"var":"MessageTooLarge"'):
        if b0.derived or not b0.path.startswith("sozu_command_lib::channel::") or "::tests::" in b0.path:
            continue
        b = lib.flat(F, b0)
        sites = [(bi, si) for bi, si, st in b.stmts() if st.get("rv", {}).get("k") == "agg" and st["rv"].get("var") == "MessageTooLarge"]
        if not sites:
            continue
        strict, loose = [], []
        for sb, f, t, atom in guards.bool_switches(b):
            if atom[0] != "cmp":
                continue
            for tgt in (f, t):
                rel = lib.relation_on_edge(b, sb, tgt)
                if not rel:
                    continue
                op, sa, sbb, _ = rel
                a_max = any(fl == "max_buffer_size" for _, fl in sa["fields"]) or any(c.endswith("::max_buffer_size") for c in sa["callees"])
                b_max = any(fl == "max_buffer_size" for _, fl in sbb["fields"]) or any(c.endswith("::max_buffer_size") for c in sbb["callees"])
                if a_max == b_max:
                    continue
                # normalise to  value OP max
                if a_max:
                    op = {"Lt": "Gt", "Gt": "Lt", "Le": "Ge", "Ge": "Le"}.get(op, op)
                (strict if op == "Gt" else loose if op == "Ge" else []).append((sb, tgt)) if op in ("Gt", "Ge") else None
        for i, (bi, si) in enumerate(sites):
            n += 1
            r.fn(b0.path)
            key = "%s|MessageTooLarge#%d only above max" % (b0.path, i)
            if strict and lib.guarded_by(b, bi, strict):
                r.ok(key, b.where(bi, si), "behind `size > max_buffer_size`")
            elif loose and lib.guarded_by(b, bi, strict + loose):
                r.violation(key, b.where(bi, si), "a frame whose size EQUALS max_buffer_size is refused here (`>=`), while the peer side accepts it: the message is sent, never delivered, and the reader re-reads the same refused prefix forever")
            else:
                r.violation(key, b.where(bi, si), "MessageTooLarge is raised without a dominating `size > max_buffer_size` comparison")
    r.require(n >= 2, "only %d MessageTooLarge sites found in the channel" % n)
