"""Loader for sozu-facts JSON lines + CFG utilities (successors, dominators,
post-dominators, reaching definitions, backward slices)."""
import glob, json, os, re
from collections import defaultdict

from facts import Broken


def is_local(pl):
    return isinstance(pl, int)


def pl_local(pl):
    return pl if isinstance(pl, int) else pl["l"]


def pl_proj(pl):
    return [] if isinstance(pl, int) else pl["p"]


def op_place(op):
    """place of a copy/move operand or None for constants"""
    if "cp" in op:
        return op["cp"]
    if "mv" in op:
        return op["mv"]
    return None


def op_local(op):
    """local if the operand is a bare local (no projection)"""
    p = op_place(op)
    if p is not None and isinstance(p, int):
        return p
    return None


def op_base(op):
    p = op_place(op)
    return None if p is None else pl_local(p)


def op_const(op):
    """python value of an integer/bool constant operand, else None"""
    if "c" in op and "v" in op:
        return int(op["v"])
    return None


def proj_fields(pl):
    """list of (adt, variant, field) for each field projection in the place"""
    out = []
    for e in pl_proj(pl):
        if e.startswith("f|"):
            _, adt, var, fld = e.split("|", 3)
            out.append((adt, var, fld))
    return out


def place_str(pl):
    if isinstance(pl, int):
        return "_%d" % pl
    s = "_%d" % pl["l"]
    for e in pl["p"]:
        if e == "*":
            s = "(*%s)" % s
        elif e.startswith("f|"):
            s += "." + e.split("|")[3]
        elif e.startswith("d|"):
            s = "(%s as %s)" % (s, e[2:])
        elif e.startswith("t|") or e.startswith("u|"):
            s += "." + e.split("|")[-1]
        else:
            s += "[%s]" % e
    return s


def fn_fingerprint(b):
    """shape of a function that survives a rename: visibility, parameter and return types, the set of callees"""
    callees = sorted({(t.get("res") or t.get("fn") or "?") for blk in b.blocks if not blk.get("cl")
                      for t in [blk["t"]] if t["k"] == "call"})
    return {"pub": bool(b.rec.get("pub")), "sig": [b.locals[i] for i in range(0, b.argc + 1)], "callees": callees,
            "nblocks": len(b.blocks)}


def _parent(path):
    return path.rsplit("::", 1)[0]


class Body:
    __slots__ = ("rec", "path", "crate", "kind", "file", "line", "blocks", "locals", "names",
                 "_succ", "_pred", "_dom", "_pdom", "_defs", "root", "self_ty", "trait",
                 "derived", "expn", "argc", "_reach", "_borrowed", "_mutb", "inl")

    def __init__(self, rec, crate):
        self.rec = rec
        self.path = rec["path"]
        self.crate = crate
        self.kind = rec["kind"]
        self.file = rec["file"]
        self.line = rec["line"]
        self.blocks = rec["blocks"]
        self.locals = rec["locals"]
        self.names = rec["names"]
        self.root = rec.get("root", rec["path"])
        self.self_ty = rec.get("self_ty")
        self.trait = rec.get("trait")
        self.derived = rec.get("derived", False)
        self.expn = rec.get("x", False)
        self.argc = rec["argc"]
        self._succ = self._pred = self._dom = self._pdom = self._defs = self._reach = None
        self._borrowed = None
        self._mutb = None
        self.inl = []
        self._normalise_checked_arith()

    def _normalise_checked_arith(self):
        """debug-assertion builds lower `x = a + b` to `t = AddWithOverflow(a, b); assert(!t.1); x = move t.0`.
        Rewrite the final move into `x = Add(a, b)` so that rules see the same arithmetic in every configuration."""
        for b in self.blocks:
            t = b["t"]
            if t["k"] != "assert" or t.get("msg") != "Overflow":
                continue
            cp = op_place(t["cond"])
            if cp is None or isinstance(cp, int):
                continue
            tmp = cp["l"]
            src = None
            for s in b["s"]:
                if s.get("lhs") == tmp and s["rv"]["k"] == "bin" and s["rv"]["op"].endswith("WithOverflow"):
                    src = s["rv"]
            if src is None:
                continue
            tb = self.blocks[t["to"]]
            for s in tb["s"]:
                rv = s.get("rv")
                if rv and rv["k"] == "use":
                    p = op_place(rv["a"])
                    if p is not None and not isinstance(p, int) and p["l"] == tmp and p["p"] and p["p"][0].startswith("t|0"):
                        s["rv"] = {"k": "bin", "op": src["op"].replace("WithOverflow", ""), "a": src["a"], "b": src["b"]}
                        break

    # ---- naming -------------------------------------------------------
    def local_name(self, l):
        for n, pl in self.names:
            if pl == l:
                return n
        return None

    def named_local(self, name):
        """all locals bound to source variable `name`"""
        return [pl for n, pl in self.names if n == name and isinstance(pl, int)]

    def where(self, bb=None, stmt=None):
        ln = self.line
        if bb is not None:
            b = self.blocks[bb]
            if stmt is not None and stmt < len(b["s"]):
                ln = b["s"][stmt].get("ln", ln)
            else:
                ln = b["t"].get("ln", ln)
        f = self.file
        if bb is not None and self.blocks[bb].get("file"):
            f = self.blocks[bb]["file"]       # a block spliced in from another function (inline.py)
        return "%s:%d" % (f, ln)

    # ---- CFG ----------------------------------------------------------
    def succ(self):
        if self._succ is None:
            s = []
            for b in self.blocks:
                t = b["t"]
                k = t["k"]
                if k in ("goto", "drop", "assert"):
                    s.append([t["to"]])
                elif k == "call":
                    s.append([] if t["to"] is None else [t["to"]])
                elif k == "switch":
                    tg = [x[1] for x in t["ts"]] + [t["else"]]
                    cv = op_const(t["op"])
                    if cv is None:
                        cv = self._const_local(op_local(t["op"]))
                    if cv is not None:
                        # switch on a literal (cfg!(debug_assertions), const generics): one live edge
                        hit = [x[1] for x in t["ts"] if int(x[0]) == cv]
                        tg = hit[:1] if hit else [t["else"]]
                    seen = []
                    for x in tg:
                        if x not in seen:
                            seen.append(x)
                    s.append(seen)
                else:
                    s.append([])
            self._succ = s
        return self._succ

    def _const_local(self, l):
        """value of a local whose only definition (anywhere in the body) is a literal: the shape
        `_8 = const false; switchInt(move _8)` that cfg!(debug_assertions) produces"""
        if l is None or l in self.borrowed():
            return None
        ds = self.defs().get(l, [])
        if len(ds) == 1 and ds[0][2] == "assign" and ds[0][3]["k"] == "use":
            return op_const(ds[0][3]["a"])
        return None

    def borrowed(self):
        """locals whose address is taken somewhere in the body (they may change through the pointer)"""
        if getattr(self, "_borrowed", None) is None:
            s = set()
            for b in self.blocks:
                for st in b["s"]:
                    rv = st.get("rv")
                    if rv and rv["k"] in ("ref", "raw"):
                        pl = rv["pl"]
                        if isinstance(pl, int) or "*" not in pl["p"]:
                            s.add(pl_local(pl))
            self._borrowed = s
        return self._borrowed

    def pred(self):
        if self._pred is None:
            p = [[] for _ in self.blocks]
            for i, ss in enumerate(self.succ()):
                for x in ss:
                    p[x].append(i)
            self._pred = p
        return self._pred

    def reachable(self):
        if self._reach is None:
            seen = {0}
            st = [0]
            sc = self.succ()
            while st:
                b = st.pop()
                for x in sc[b]:
                    if x not in seen:
                        seen.add(x)
                        st.append(x)
            self._reach = seen
        return self._reach

    def returns(self):
        return [i for i in self.reachable() if self.blocks[i]["t"]["k"] == "ret"]

    def reach_from(self, starts, removed=(), succ=None):
        """blocks reachable from the blocks in `starts` (inclusive) not entering `removed`"""
        removed = set(removed)
        sc = succ or self.succ()
        seen = set()
        st = [s for s in starts if s not in removed]
        seen.update(st)
        while st:
            b = st.pop()
            for x in sc[b]:
                if x not in seen and x not in removed:
                    seen.add(x)
                    st.append(x)
        return seen

    def dominators(self):
        """dom[b] = set of blocks dominating b (inclusive), over blocks reachable from entry"""
        if self._dom is None:
            self._dom = _dominators(len(self.blocks), [0], self.succ(), self.pred(), self.reachable())
        return self._dom

    def postdominators(self):
        """pdom[b] = blocks post-dominating b w.r.t. normal Return exits"""
        if self._pdom is None:
            exits = self.returns()
            n = len(self.blocks)
            # reverse graph with virtual exit n
            rsucc = [list(p) for p in self.pred()] + [list(exits)]
            rpred = [list(s) for s in self.succ()] + [[]]
            for e in exits:
                rpred[e] = rpred[e] + [n]
            # nodes that can reach an exit
            can = set()
            st = [n]
            while st:
                b = st.pop()
                for x in rsucc[b]:
                    if x not in can:
                        can.add(x)
                        st.append(x)
            can.add(n)
            d = _dominators(n + 1, [n], rsucc, rpred, can)
            self._pdom = {k: {x for x in v if x != n} for k, v in d.items() if k != n}
        return self._pdom

    def dominates(self, a, b):
        d = self.dominators()
        return b in d and a in d[b]

    # ---- definitions --------------------------------------------------
    def defs(self):
        """local -> list of (bb, stmt_index or None for terminator, kind, payload)
        kind: 'assign' (payload rvalue, whole local only), 'partial' (projected write),
        'call' (payload terminator)"""
        if self._defs is None:
            d = defaultdict(list)
            for bi, b in enumerate(self.blocks):
                for si, s in enumerate(b["s"]):
                    if "lhs" in s:
                        lhs = s["lhs"]
                        if isinstance(lhs, int):
                            d[lhs].append((bi, si, "assign", s["rv"]))
                        else:
                            d[lhs["l"]].append((bi, si, "partial", s))
                    elif "setd" in s:
                        d[pl_local(s["setd"])].append((bi, si, "partial", s))
                t = b["t"]
                if t["k"] == "call" and "dest" in t:
                    dst = t["dest"]
                    if isinstance(dst, int):
                        d[dst].append((bi, None, "call", t))
                    else:
                        d[dst["l"]].append((bi, None, "partial", t))
            # a local whose address is passed mutably to a call may be (re)defined by that call
            mref = {}
            for bi, b in enumerate(self.blocks):
                for s in b["s"]:
                    rv = s.get("rv")
                    if rv and rv["k"] in ("ref", "raw") and rv.get("m") and isinstance(s.get("lhs"), int):
                        pl = rv["pl"]
                        if isinstance(pl, int):
                            mref[s["lhs"]] = pl
                        elif pl["p"] == ["*"] and pl["l"] in mref:
                            mref[s["lhs"]] = mref[pl["l"]]
            for bi, b in enumerate(self.blocks):
                t = b["t"]
                if t["k"] == "call":
                    for a in t["args"]:
                        l = op_local(a)
                        if l in mref:
                            d[mref[l]].append((bi, None, "mutarg", t))
            self._defs = d
        return self._defs

    def reaching_defs(self, l, bb):
        """the definitions of local `l` (entries of defs()[l]) that can reach the END of block `bb`: flow-sensitive
        counterpart of defs(), exact on the pruned CFG (a later whole-local assignment kills an earlier one)"""
        ds = self.defs().get(l, [])
        full_blocks = {}
        for d in ds:
            if d[2] in ("assign", "call"):
                full_blocks.setdefault(d[0], []).append(d)
        if bb in full_blocks:
            last = max(full_blocks[bb], key=lambda d: (10**9 if d[1] is None else d[1]))
            return [last] + [d for d in ds if d[2] not in ("assign", "call")]
        out = [d for d in ds if d[2] not in ("assign", "call")]
        pred = self.pred()
        live = self.reachable()
        seen, todo = {bb}, [bb]
        while todo:
            x = todo.pop()
            for p_ in pred[x]:
                if p_ in seen or p_ not in live:
                    continue
                seen.add(p_)
                if p_ in full_blocks:
                    out.append(max(full_blocks[p_], key=lambda d: (10**9 if d[1] is None else d[1])))
                    continue            # killed here: do not look further up
                todo.append(p_)
        return out

    def single_def(self, l):
        ds = self.defs().get(l, [])
        full = [x for x in ds if x[2] in ("assign", "call")]
        if len(full) == 1 and len(ds) == 1:
            return full[0]
        if len(full) > 1 and len(full) == len(ds):
            # jump threading (inline.threaded) duplicates straight-line blocks: textually identical definitions in
            # clones of one original block are one definition
            def sig(d):
                if d[2] == "assign":
                    return ("a", json.dumps(d[3], sort_keys=True))
                t = d[3]
                return ("c", t.get("fn"), json.dumps(t.get("args"), sort_keys=True), json.dumps(t.get("dest"), sort_keys=True))
            def orig(bi):
                for _ in range(20):
                    nb = self.blocks[bi].get("thr")
                    if nb is None:
                        return bi
                    bi = nb
                return bi
            origin = {orig(d[0]) for d in full}
            if len({sig(d) for d in full}) == 1 and len(origin) == 1:
                return min(full, key=lambda d: d[0])
        return None

    def calls(self):
        for bi in sorted(self.reachable()):
            t = self.blocks[bi]["t"]
            if t["k"] == "call":
                yield bi, t

    def stmts(self):
        for bi in sorted(self.reachable()):
            for si, s in enumerate(self.blocks[bi]["s"]):
                yield bi, si, s

    # ---- backward slice ------------------------------------------------
    def slice_back(self, start_locals, depth=40, through_calls=True):
        """Flow-insensitive backward data slice: returns dict with
        locals, callees (set of callee names), fields (set of (adt,field)) read,
        consts (set of const strings), params (arg locals reached)."""
        seen = set()
        work = list(start_locals)
        callees, fields, consts = set(), set(), set()
        defs = self.defs()

        def visit_op(op):
            p = op_place(op)
            if p is None:
                if "c" in op:
                    consts.add(op["c"])
                return
            for f in proj_fields(p):
                fields.add((f[0], f[2]))
            for e in pl_proj(p):
                if e.startswith("i|"):
                    work.append(int(e[2:]))
            work.append(pl_local(p))

        def visit_place(p):
            for f in proj_fields(p):
                fields.add((f[0], f[2]))
            work.append(pl_local(p))

        while work:
            l = work.pop()
            if l in seen:
                continue
            seen.add(l)
            for (bi, si, kind, payload) in defs.get(l, []):
                if kind == "assign":
                    rv = payload
                elif kind == "partial":
                    rv = payload.get("rv") if isinstance(payload, dict) else None
                    if rv is None and payload.get("k") == "call":
                        rv = None
                        t = payload
                        callees.add(callee_of(t))
                        if through_calls:
                            for a in t["args"]:
                                visit_op(a)
                        continue
                    if rv is None:
                        continue
                elif kind == "mutarg":
                    t = payload
                    callees.add(callee_of(t))
                    if through_calls:
                        for a in t["args"]:
                            # the out-parameter itself is not an input
                            al = op_local(a)
                            if al is not None and al in seen:
                                continue
                            visit_op(a)
                    continue
                else:
                    t = payload
                    callees.add(callee_of(t))
                    if through_calls:
                        for a in t["args"]:
                            visit_op(a)
                    continue
                k = rv["k"]
                if k in ("use", "cast", "un", "repeat"):
                    visit_op(rv["a"])
                elif k == "bin":
                    visit_op(rv["a"])
                    visit_op(rv["b"])
                elif k in ("ref", "raw", "discr"):
                    visit_place(rv["pl"])
                elif k == "agg":
                    for o in rv["ops"]:
                        visit_op(o)
        params = {l for l in seen if 1 <= l <= self.argc}
        return {"locals": seen, "callees": callees, "fields": fields, "consts": consts,
                "params": params}


def _dominators(n, roots, succ, pred, nodes):
    nodes = set(nodes)
    # reverse post-order from roots
    order = []
    seen = set()
    for r in roots:
        if r in seen:
            continue
        stack = [(r, iter(succ[r]))]
        seen.add(r)
        while stack:
            node, it = stack[-1]
            adv = False
            for x in it:
                if x in nodes and x not in seen:
                    seen.add(x)
                    stack.append((x, iter(succ[x])))
                    adv = True
                    break
            if not adv:
                order.append(node)
                stack.pop()
    order.reverse()
    idx = {b: i for i, b in enumerate(order)}
    idom = {}
    for r in roots:
        idom[r] = r

    def intersect(a, b):
        while a != b:
            while idx[a] > idx[b]:
                a = idom[a]
            while idx[b] > idx[a]:
                b = idom[b]
        return a

    changed = True
    while changed:
        changed = False
        for b in order:
            if b in roots:
                continue
            new = None
            for p in pred[b]:
                if p in idom and p in idx:
                    new = p if new is None else intersect(p, new)
            if new is not None and idom.get(b) != new:
                idom[b] = new
                changed = True
    dom = {}
    for b in order:
        s = {b}
        x = b
        while idom.get(x, x) != x:
            x = idom[x]
            s.add(x)
        dom[b] = s
    return dom


def callee_of(t):
    """best identity of a call terminator's callee: resolved impl if known"""
    return t.get("res") or t.get("fn") or "<fnptr>"


class Facts:
    """Lazy fact base: body records are kept as raw JSON lines and parsed on demand;
    whole-program queries pre-filter with a substring search (`grep`)."""

    def __init__(self, d, targets=("sozu_command_lib-lib", "sozu_lib-lib", "sozu-bin"), normalise=True):
        self.dir = d
        self.renamed = {}    # current name -> reference name (functions), filled by _normalise_renames
        self.renamed_fields = {}
        self.raw = {}        # path -> (raw line, crate)
        self._parsed = {}
        self.adts = {}
        self.impls = []
        self.consts = {}
        self.crates = {}
        pat = re.compile(r'^\{"rec":"body","path":"((?:[^"\\]|\\.)*)"')
        ppat = re.compile(r'^\{"rec":"promoted","path":"((?:[^"\\]|\\.)*)"')
        self.promoted = {}
        self.constbodies = {}     # path -> raw line: initialisers of aggregate-valued constants
        self.constvals = {}       # path -> evaluated value of a struct constant whose fields are all scalars
        self._constagg = {}
        cpat = re.compile(r'^\{"rec":"constbody","path":"((?:[^"\\]|\\.)*)"')
        for stem in targets:
            fs = glob.glob(os.path.join(d, stem + "-*.jsonl"))
            if len(fs) != 1:
                raise Broken("fact file for %s missing in %s" % (stem, d))
            nb = 0
            crate = stem.rsplit("-", 1)[0]
            ended = False
            with open(fs[0]) as fh:
                for line in fh:
                    if line.startswith('{"rec":"promoted"'):
                        m = ppat.match(line)
                        self.promoted[json.loads('"' + m.group(1) + '"')] = line
                        continue
                    if line.startswith('{"rec":"constval"'):
                        r = json.loads(line)
                        self.constvals[r["path"]] = r
                        continue
                    if line.startswith('{"rec":"constbody"'):
                        m = cpat.match(line)
                        self.constbodies[json.loads('"' + m.group(1) + '"')] = line
                        continue
                    if line.startswith('{"rec":"body"'):
                        m = pat.match(line)
                        path = json.loads('"' + m.group(1) + '"')
                        self.raw[path] = (line, crate)
                        nb += 1
                        continue
                    r = json.loads(line)
                    k = r["rec"]
                    if k == "adt":
                        self.adts[r["path"]] = r
                    elif k == "impl":
                        r["crate"] = crate
                        self.impls.append(r)
                    elif k == "const":
                        self.consts[r["path"]] = r
                    elif k == "end":
                        if r["bodies"] != nb:
                            raise Broken("truncated fact file " + fs[0])
                        self.crates[stem] = nb
                        ended = True
            if not ended:
                raise Broken("fact file without end marker: " + fs[0])
        self._children = None
        if normalise:
            self._normalise_renames()

    # ---- rename normalisation -------------------------------------------
    def _normalise_renames(self):
        """A function or field that was merely renamed is presented to the rules under the name it has in the
        reference inventory (tables/anchors.json): rules name the parts of the program they talk about, and a rename
        changes no behaviour.  A rename is recognised only when it is unambiguous: the reference name is gone, exactly
        the right number of unknown names of the same parent and the same shape appeared, and (for functions) the
        callee sets are similar.  Anything else is left alone (and a rule that misses its anchor reports BROKEN)."""
        tp = os.path.join(os.path.dirname(os.path.abspath(__file__)), "..", "tables", "anchors.json")
        if not os.path.exists(tp):
            return
        ref = json.load(open(tp))
        rfns = ref["fns"]
        cur = {p for p in self.raw if "{closure" not in p}
        missing = [p for p in rfns if p not in cur]
        subst = []
        if missing:
            new = [p for p in cur if p not in rfns]
            by_parent = defaultdict(list)
            for n in new:
                by_parent[_parent(n)].append(n)
            for m in sorted(missing):
                cands = []
                for n in by_parent.get(_parent(m), []):
                    b = Body(json.loads(self.raw[n][0]), self.raw[n][1])
                    if b.derived:
                        continue
                    fp = fn_fingerprint(b)
                    if fp["sig"] != rfns[m]["sig"] or fp["pub"] != rfns[m]["pub"]:
                        continue
                    short_m, short_n = m.rsplit("::", 1)[1], n.rsplit("::", 1)[1]
                    a = {c.replace(short_n, short_m) for c in fp["callees"]}
                    r = set(rfns[m]["callees"])
                    j = len(a & r) / float(len(a | r)) if (a | r) else 1.0
                    cands.append((j, n))
                cands.sort(reverse=True)
                if cands and cands[0][0] >= 0.5 and (len(cands) == 1 or cands[0][0] - cands[1][0] >= 0.2):
                    n = cands[0][1]
                    if n not in [x for x, _ in subst]:
                        subst.append((n, m))
        # fields: same ADT and variant, a reference field gone, one unknown field of the same type appeared
        fsubst = []
        for ap, vs in ref.get("fields", {}).items():
            a = self.adts.get(ap)
            if a is None:
                continue
            for v in a["variants"]:
                rv = vs.get(v["name"])
                if rv is None:
                    continue
                curf = {f["name"]: f["ty"] for f in v["fields"]}
                gone = [f for f in rv if f not in curf]
                came = [f for f in curf if f not in rv]
                for g in gone:
                    same = [c for c in came if curf[c] == rv[g]]
                    same_gone = [x for x in gone if rv[x] == rv[g]]
                    if len(same) == 1 and len(same_gone) == 1:
                        fsubst.append((ap, v["name"], same[0], g))
        if not subst and not fsubst:
            return
        pats = [(n, m, re.compile(re.escape(json.dumps(n)[1:-1]) + r'(?=["\\:<])')) for n, m in subst]
        fpats = []
        for ap, vn, newf, oldf in fsubst:
            japp = json.dumps(ap)[1:-1]
            fpats.append((newf, '"f|%s|%s|%s"' % (japp, vn, newf), '"f|%s|%s|%s"' % (japp, vn, oldf)))

        aggpats = []
        for ap, vn, newf, oldf in fsubst:
            japp = json.dumps(ap)[1:-1]
            aggpats.append((newf, oldf, re.compile(r'("adt":"%s","var":"%s","vi":\d+,"fn":\[)([^\]]*)\]' % (re.escape(japp), re.escape(vn)))))

        def fix(line):
            for newf, oldf, ap_ in aggpats:
                if '"%s"' % newf in line:
                    line = ap_.sub(lambda mm, newf=newf, oldf=oldf: mm.group(1) + mm.group(2).replace('"%s"' % newf, '"%s"' % oldf) + "]", line)
            for n, m, pat in pats:
                if json.dumps(n)[1:-1] in line:
                    line = pat.sub(lambda _m, m=m: json.dumps(m)[1:-1], line)
            for newf, a, b in fpats:
                if a in line:
                    line = line.replace(a, b)
            return line

        raw2 = {}
        for p, (line, crate) in self.raw.items():
            l2 = fix(line)
            p2 = p
            for n, m, pat in pats:
                if p == n or p.startswith(n + "::{"):
                    p2 = m + p[len(n):]
            raw2[p2] = (l2, crate)
        self.raw = raw2
        self.promoted = {fixk: fix(v) for fixk, v in ((self._ren_key(k, subst), v) for k, v in self.promoted.items())}
        self.constbodies = {k: fix(v) for k, v in self.constbodies.items()}
        for im in self.impls:
            for it in im["items"]:
                for n, m in subst:
                    if it["fn"] == n:
                        it["fn"] = m
                        it["name"] = m.rsplit("::", 1)[1]
        for ap, vn, newf, oldf in fsubst:
            for v in self.adts[ap]["variants"]:
                if v["name"] == vn:
                    for f in v["fields"]:
                        if f["name"] == newf:
                            f["name"] = oldf
            self.renamed_fields[(ap, newf)] = oldf
        # aggregate field-name lists ("fn":[..]) of the renamed fields' ADTs are positional; names there are cosmetic
        self.renamed = {n: m for n, m in subst}

    @staticmethod
    def _ren_key(k, subst):
        for n, m in subst:
            if k.startswith(n + "::{"):
                return m + k[len(n):]
        return k

    # ---- lookup -------------------------------------------------------
    def has(self, path):
        return path in self.raw

    def body(self, path):
        b = self._parsed.get(path)
        if b is not None:
            return b
        r = self.raw.get(path)
        if r is None:
            raise Broken("anchor function not found: " + path)
        rec = json.loads(r[0])
        if self.constbodies or self.constvals:
            self._expand_const_aggregates(rec)
        b = Body(rec, r[1])
        self._parsed[path] = b
        return b

    def paths(self):
        return self.raw.keys()

    def const_aggregate(self, path):
        """the aggregate rvalue an aggregate-valued constant is initialised with (`const ALL: Self = Self { a: true, .. }`),
        when its initialiser is a single aggregate of literals; else None"""
        if path in self._constagg:
            return self._constagg[path]
        out = None
        cv = self.constvals.get(path)
        if cv is not None:
            out = {"k": "agg", "ak": "adt", "adt": cv["adt"], "var": cv["var"], "vi": cv["vi"],
                   "fn": [f["name"] for f in cv["fields"]],
                   "ops": [{"c": ("true" if f["v"] == "1" else "false") if f["ty"] == "bool" else f["v"], "ty": f["ty"], "v": f["v"]}
                           for f in cv["fields"]]}
            self._constagg[path] = out
            return out
        line = self.constbodies.get(path)
        if line is not None:
            r = json.loads(line)
            aggs = []
            simple = True
            for blk in r["blocks"]:
                if blk.get("cl"):
                    continue
                for st in blk["s"]:
                    if st.get("lhs") == 0 and st["rv"]["k"] == "agg" and all(op_place(o) is None for o in st["rv"]["ops"]):
                        aggs.append(st["rv"])
                    elif "lhs" in st:
                        simple = False
                if blk["t"]["k"] not in ("ret", "goto", "unreachable", "resume", "abort"):
                    simple = False
            if simple and len(aggs) == 1:
                out = aggs[0]
        self._constagg[path] = out
        return out

    def _expand_const_aggregates(self, rec):
        """`x = CONST` with an aggregate-valued workspace constant becomes `x = Adt { literal fields }`: naming a value
        must not change what a rule sees"""
        for blk in rec["blocks"]:
            for st in blk["s"]:
                rv = st.get("rv")
                if rv and rv["k"] == "use" and "constdef" in rv["a"]:
                    agg = self.const_aggregate(rv["a"]["constdef"])
                    if agg is not None:
                        new = json.loads(json.dumps(agg))
                        new["from_const"] = rv["a"]["constdef"]
                        st["rv"] = new

    def promoted_value(self, body, idx):
        """value of promoted constant #idx of `body`: ('variant', adt, name) for a fieldless enum
        value, ('int', n) for scalars, else None"""
        owner = body if isinstance(body, str) else body.path
        line = self.promoted.get("%s::{promoted#%d}" % (owner, idx))
        if line is None:
            return None
        r = json.loads(line)
        val = {}
        for b in r["blocks"]:
            for s in b["s"]:
                if "lhs" in s and isinstance(s["lhs"], int):
                    rv = s["rv"]
                    if rv["k"] == "agg" and rv.get("ak") == "adt" and not rv["ops"]:
                        val[s["lhs"]] = ("variant", rv["adt"], rv["var"])
                    elif rv["k"] == "use" and op_const(rv["a"]) is not None:
                        val[s["lhs"]] = ("int", op_const(rv["a"]))
                    elif rv["k"] == "ref" and isinstance(rv["pl"], int):
                        val[s["lhs"]] = val.get(rv["pl"])
                    elif rv["k"] == "use" and op_local(rv["a"]) is not None:
                        val[s["lhs"]] = val.get(op_local(rv["a"]))
        return val.get(0)

    def find(self, regex):
        r = re.compile(regex)
        return [self.body(p) for p in sorted(self.raw) if r.search(p)]

    def grep(self, *subs, derived=False):
        """bodies whose raw record contains every substring (cheap pre-filter);
        #[derive]-generated bodies are skipped unless derived=True"""
        out = []
        for p in sorted(self.raw):
            line = self.raw[p][0]
            if all(s in line for s in subs):
                b = self.body(p)
                if b.derived and not derived:
                    continue
                out.append(b)
        return out

    def all_bodies(self):
        return [self.body(p) for p in sorted(self.raw)]

    def adt(self, path):
        a = self.adts.get(path)
        if a is None:
            raise Broken("anchor type not found: " + path)
        return a

    def variants(self, adt_path):
        return [v["name"] for v in self.adt(adt_path)["variants"]]

    def variant_discr(self, adt_path):
        return {v["name"]: int(v["discr"]) for v in self.adt(adt_path)["variants"]}

    def fields(self, adt_path, variant=None):
        a = self.adt(adt_path)
        v = a["variants"][0] if variant is None else [x for x in a["variants"] if x["name"] == variant][0]
        return v["fields"]

    def const(self, path):
        c = self.consts.get(path)
        if c is None:
            raise Broken("anchor const not found: " + path)
        return int(c["v"])

    def closures_of(self, path):
        if self._children is None:
            ch = defaultdict(list)
            pp = re.compile(r'"parent":"((?:[^"\\]|\\.)*)"')
            for p, (line, _) in self.raw.items():
                if "{closure#" in p:
                    m = pp.search(line[:3000])
                    if m:
                        ch[json.loads('"' + m.group(1) + '"')].append(p)
            self._children = ch
        return self._children.get(path, [])

    def family(self, path):
        """a function plus all closures nested in it (transitively)"""
        out = [path]
        i = 0
        while i < len(out):
            out.extend(sorted(self.closures_of(out[i])))
            i += 1
        return out

    def impls_of(self, trait_fn):
        """all impl fns implementing trait method `trait_fn`"""
        out = []
        for im in self.impls:
            for it in im["items"]:
                if it["trait_fn"] == trait_fn:
                    out.append(it["fn"])
        return sorted(out)

    def call_sites(self, callee, exact=True):
        """all (body, bb, terminator) calling `callee` (matched on fn or resolved name)"""
        out = []
        for b in self.grep(json.dumps(callee)[1:-1]):
            for bi, t in b.calls():
                names = (t.get("fn"), t.get("res"))
                if (callee in names) if exact else any(n and callee in n for n in names):
                    out.append((b, bi, t))
        return out
