"""C15 - no HTTP/2 input can crash, wedge or over-commit a worker (structural clauses)."""
import alias, bounds, cover, guards, lib, loops
from mir import callee_of, op_place, op_local, op_const, pl_local, proj_fields

H2 = "sozu_lib::protocol::mux::h2::ConnectionH2"
MUX = "sozu_lib::protocol::mux::"
FD = "sozu_lib::protocol::mux::h2::H2FloodDetector"
SIDE_MAPS = ("rst_sent", "stream_last_activity_at", "stream_fc_stalled_since", "stream_fc_stalled_progress", "prioriser")
REMOVERS = ("::remove", "::clear", "::retain", "::drain", "::pop_first", "::pop_last", "::remove_entry", "::split_off")


import json, os
HERE = os.path.dirname(os.path.abspath(__file__))


def run(F, chk):
    tbl = json.load(open(os.path.join(HERE, "..", "tables", "C15.json")))
    chk.explanation = (
        "Structural necessary conditions of H2 robustness decided on MIR: (a) whoever removes from ConnectionH2.streams "
        "also evicts the five per-stream side maps and re-examines the cached expect_read/expect_write slots on every "
        "path; (b) the stream-slab tail is shrunk only from Context::create_stream; (c) the frame parser and serializer "
        "contain no explicit panic and every slice/index is implied in bounds by dominating comparisons; (d) the "
        "readiness / TLS / shutdown loops carry an iteration counter that is incremented and tested against a constant "
        "budget on every cycle; (e) every increment of a flood counter is followed by check_flood() on all continuing "
        "paths; (f) handle_frame dispatches every Frame variant explicitly; (g) server-side stream creation is behind "
        "the max-concurrent-streams comparison.")
    chk.not_decided = ("absence of implicit panics in the stateful mux (indexing by gid), the error class chosen for every "
                       "frame sequence, memory bounds of queued data")
    # ---------------- R-C15-a --------------------------------------------------
    ra = chk.rule("R-C15-a", "T3+T4", "removal from streams => side maps evicted, cached slots re-examined", floor=7)
    rems = [(b, bi, c) for (b, bi, c) in lib.field_mut_calls(F, H2, "streams") if c.endswith(REMOVERS)]
    ra.require(rems, "no removal from ConnectionH2.streams found")
    for b, bi, c in rems:
        ra.fn(b.path)
        og = alias.Origins(b)
        start = b.blocks[bi]["t"]["to"]
        for fld in SIDE_MAPS:
            ev = [s["bb"] for s in alias.field_touch(b, og, H2, fld) if s["kind"] == "call" and s["direct"] and s["callee"].endswith(REMOVERS)]
            key = "%s|streams%s=>evict %s" % (b.path, c[c.rfind("::"):], fld)
            cut = b.reach_from([start], removed=ev)
            if ev and not [r for r in b.returns() if r in cut]:
                ra.ok(key, b.where(bi), "every path evicts %s" % fld)
            else:
                ra.violation(key, b.where(bi), "a path removes a stream from ConnectionH2.streams and returns without evicting %s: a reused stream id inherits stale per-stream state" % fld)
        for fld in ("expect_write", "expect_read"):
            ev = set()
            for x, si, s in b.stmts():
                rv = s.get("rv")
                if rv and rv["k"] == "discr" and any(f == fld for _, _, f in proj_fields(rv["pl"])):
                    ev.add(x)
                if "lhs" in s and not isinstance(s["lhs"], int) and any(f == fld for _, _, f in proj_fields(s["lhs"])):
                    ev.add(x)
            key = "%s|streams%s=>recheck %s" % (b.path, c[c.rfind("::"):], fld)
            cut = b.reach_from([start], removed=ev)
            if ev and not [r for r in b.returns() if r in cut]:
                ra.ok(key, b.where(bi), "every path re-examines %s" % fld)
            else:
                ra.violation(key, b.where(bi), "a path removes a stream and returns without re-examining the cached %s slot (dangling gid)" % fld)
    activity_rule(F, chk)
    window_arith_rule(F, chk)
    refused_stream_watermark_rule(F, chk)
    # ---------------- R-C15-b --------------------------------------------------
    rb = chk.rule("R-C15-b", "T4", "shrink_trailing_recycle is called only from Context::create_stream", floor=1)
    callers = sorted({b.path for b, bi, t in F.call_sites(MUX + "Context::<L>::shrink_trailing_recycle")})
    if rb.require(callers, "no caller of Context::shrink_trailing_recycle found"):
        bad = [c for c in callers if not c.endswith("Context::<L>::create_stream")]
        if bad:
            rb.violation("shrink_trailing_recycle callers", "", "called from %s: popping stream slots while other code holds their indices" % bad)
        else:
            rb.ok("shrink_trailing_recycle callers", "", "only Context::create_stream", nontrivial=False)
    # ---------------- R-C15-c --------------------------------------------------
    rc = chk.rule("R-C15-c", "T9", "frame parser / serializer: no explicit panic, indices implied in bounds", floor=20)
    n = 0
    for p in sorted(F.paths()):
        if not (p.startswith(MUX + "parser::") or p.startswith(MUX + "serializer::") or p.startswith("<" + MUX + "parser::")):
            continue
        b = F.body(p)
        if b.derived:
            continue
        n += 1
        rc.fn(p)
        pans = bounds.explicit_panics(b)
        for i, (bi, c, m) in enumerate(pans):
            rc.violation("%s|panic %s#%d" % (p, c.split("::")[-1], i), b.where(bi), "explicit panic site %s%s in the frame codec" % (c, (" via " + m) if m else ""))
        if not pans:
            rc.ok("%s|no explicit panic" % p, b.where(), "", nontrivial=False)
        for j, (bi, kind, t) in enumerate(bounds.index_sites(b)):
            ok, why = bounds.check_site(b, bi, kind, t)
            key = "%s|%s#%d" % (p, kind, j)
            if ok:
                rc.ok(key, b.where(bi), why)
            else:
                rc.info(key, b.where(bi), "not decided: in-bounds-ness relies on the frame_header length validation / nom take(n) contract (cross-function), not on a comparison in this function: " + why)
    # ---------------- R-C15-d --------------------------------------------------
    rd = chk.rule("R-C15-d", "T10", "I/O loops carry a constant iteration budget", floor=5)
    MUXT = "<sozu_lib::protocol::mux::Mux<Front, L> as sozu_lib::protocol::SessionState>::"
    FRT = "<sozu_lib::socket::FrontRustls as sozu_lib::socket::SocketHandler>::"
    targets = [MUXT + "ready", MUXT + "timeout", MUX + "Mux::<Front, L>::drive_frontend_shutdown_io",
               MUX + "shared::drain_tls_close_notify", FRT + "socket_read", FRT + "socket_write", FRT + "socket_write_vectored"]
    targets += ["sozu_lib::socket::tcp_socket_read", "sozu_lib::socket::tcp_socket_write"]
    missing = [p for p in targets if not F.has(p)]
    targets = [p for p in targets if F.has(p)]
    alias_of = {}
    if missing:
        # a designated private function was renamed or moved within its module: it is recognised by what it is -- a
        # function of the same parent with a budgeted non-iterator loop that is not one of the designated ones
        cands = []
        for q in sorted(F.paths()):
            if "{closure" in q or q in targets or not any(q.rsplit("::", 1)[0] == m.rsplit("::", 1)[0] for m in missing):
                continue
            qb = F.body(q)
            if qb.derived:
                continue
            ls = [x for x in loops.natural_loops(qb) if loops.is_iterator_loop(qb, x[0], x[1]) is None]
            if any(loops.budget(qb, h, bd, bk)[0] for h, bd, bk in ls):
                cands.append(q)
        for m in missing:
            mine = [q for q in cands if q.rsplit("::", 1)[0] == m.rsplit("::", 1)[0]]
            same_parent_missing = [x for x in missing if x.rsplit("::", 1)[0] == m.rsplit("::", 1)[0]]
            if len(mine) == len(same_parent_missing):
                q = mine[same_parent_missing.index(m)]
                alias_of[q] = m
                targets.append(q)
                rd.info("%s|designated loop function" % m, F.body(q).where(), "not found under that name; %s is the function of the same parent carrying a budgeted I/O loop" % q)
    rd.require(len(targets) == 9, "only %d of the 9 designated loop functions found (missing %s)" % (len(targets), [m for m in missing if m not in alias_of.values()]))
    for p in sorted(targets):
        b = F.body(p)
        rd.fn(p)
        k = 0
        nb = 0
        allL = loops.natural_loops(b)
        nl = [x for x in allL if loops.is_iterator_loop(b, x[0], x[1]) is None]
        for h, body, backs in allL:
            if loops.is_iterator_loop(b, h, body) == "queue":
                rd.info("%s|queue loop@%s" % (p, b.where(h).split(":")[-1]), b.where(h), "queue-draining loop (while let Some(x) = q.pop_*()): bounded by the queue and, for Mux::ready's pending_links, by the per-stream attempts budget; not decided")
        verdicts = {h: loops.budget(b, h, body, backs) for h, body, backs in nl}
        for h, body, backs in nl:
            ok, why = verdicts[h]
            key = "%s|loop#%d" % (p, k)
            k += 1
            enclosing_ok = any(h2 != h and h in bd and verdicts[h2][0] for h2, bd, _ in nl)
            inner_ok = any(h2 != h and h2 in body and verdicts[h2][0] for h2, bd, _ in nl)
            prims = [callee_of(b.blocks[x]["t"]) for x in body if b.blocks[x]["t"]["k"] == "call"]
            progress = any(any(pp in c for pp in tbl["progress_primitives"]) for c in prims)
            if ok:
                rd.ok(key, b.where(h), why)
                nb += 1
            elif enclosing_ok:
                rd.info(key, b.where(h), "progress loop nested in a budgeted loop (terminates when the rustls reader/writer stops making progress); not decided")
            elif p.endswith("SessionState>::ready") and inner_ok:
                rd.info(key, b.where(h), "outer loop of Mux::ready: bounded by the draining of pending_links and the per-stream attempts budget, not by a counter (outside the rule; see DESIGN)")
            elif progress:
                rd.info(key, b.where(h), "progress loop over rustls' finite buffered data (each cycle calls write_tls/read and exits on Ok(0)/WouldBlock/error); termination not decided")
            else:
                rd.violation(key, b.where(h), "unbudgeted loop: " + why)
        short = alias_of.get(p, p).split("::")[-1]
        need = tbl["budgeted_loops_floor"].get(short, 1)
        key = "%s|budgeted loops >= %d" % (p, need)
        if nb >= need:
            rd.ok(key, b.where(), "%d loop(s) with a constant iteration budget%s" % (nb, "" if need else " (all loops are iterator-driven)"), nontrivial=False)
        else:
            rd.violation(key, b.where(), "only %d of the %d loop(s) of this function that carried a constant iteration budget still do: a peer can keep the worker spinning in it" % (nb, need))
    # ---------------- R-C15-e --------------------------------------------------
    re_ = chk.rule("R-C15-e", "T3", "every flood-counter increment is followed by check_flood()", floor=8)
    incremented = set()
    for b in F.grep("f|%s|H2FloodDetector|" % FD):
        if not b.path.startswith(H2 + "::"):
            continue
        incs = []
        for bi, si, s in b.stmts():
            if "lhs" not in s or isinstance(s["lhs"], int):
                continue
            fs = proj_fields(s["lhs"])
            if not fs or fs[-1][0] != FD:
                continue
            rv = s["rv"]
            fld = fs[-1][2]
            # increment: the stored value depends on the field's previous value
            dep = False
            if rv["k"] == "bin" and rv["op"].startswith("Add"):
                pa = op_place(rv["a"])
                if pa is not None and (any(f == fld for _, _, f in proj_fields(pa)) or (isinstance(pa, int) and (FD, fld) in b.slice_back([pa])["fields"])):
                    dep = True
            elif rv["k"] == "use":
                l = op_local(rv["a"])
                if l is not None:
                    sl = b.slice_back([l])
                    if (FD, fld) in sl["fields"] and any(c.endswith("saturating_add") or c.endswith("checked_add") or c.endswith("wrapping_add") for c in sl["callees"]):
                        dep = True
            if dep:
                incs.append((bi, si, fld))
        if not incs:
            continue
        re_.fn(b.path)
        checks = [x for x, t in b.calls() if callee_of(t) == FD + "::check_flood"]
        seen = {}
        for bi, si, fld in incs:
            seen[fld] = seen.get(fld, 0) + 1
            key = "%s|%s+=#%d" % (b.path, fld, seen[fld])
            incremented.add(fld)
            # a path entry -> increment -> return that meets no check_flood() at all (neither before nor after)
            before = bi in b.reach_from([0], removed=checks) and bi not in checks
            cut = b.reach_from(b.succ()[bi], removed=checks)
            after_free = [r for r in b.returns() if r in cut] if bi not in checks else []
            if not checks or (before and after_free):
                re_.violation(key, b.where(bi, si), "flood counter %s is incremented on a path through this handler that never calls check_flood(): the limit is not enforced by this frame" % fld)
            elif after_free:
                re_.ok(key, b.where(bi, si), "check_flood() runs earlier on every path to this increment (enforced one frame late at most)")
            else:
                re_.ok(key, b.where(bi, si), "all continuing paths reach check_flood()")
    cf = F.body(FD + "::check_flood")
    rd_, _ = cover.body_field_reads(cf, FD)
    read = {f for _, f in rd_}
    for fld in sorted(incremented):
        if fld.startswith("total_") or fld == "accumulated_header_size":
            continue   # lifetime totals / header-size accumulators are tested by their own record_* / inline comparisons
        key = "check_flood reads %s" % fld
        if fld in read:
            re_.ok(key, cf.where(), "compared in check_flood()", nontrivial=False)
        else:
            re_.violation(key, cf.where(), "flood counter %s is incremented by a frame handler but never examined by check_flood()" % fld)
    # ---------------- R-C15-f --------------------------------------------------
    rf = chk.rule("R-C15-f", "T7d", "handle_frame dispatches every Frame variant explicitly", floor=10)
    hf = F.body(H2 + "::<Front>::handle_frame")
    FR = MUX + "parser::Frame"
    rf.fn(hf.path)
    explicit = set()
    for bi in hf.reachable():
        t = hf.blocks[bi]["t"]
        if t["k"] != "switch":
            continue
        l = op_local(t["op"])
        d = hf.single_def(l) if l is not None else None
        if d and d[2] == "assign" and d[3]["k"] == "discr" and d[3]["adt"] == FR:
            explicit |= {int(v) for v, tg in t["ts"] if tg != t["else"]}
            others = t["else"]
            unreachable_else = hf.blocks[others]["t"]["k"] == "unreachable"
            if unreachable_else:
                explicit |= set(F.variant_discr(FR).values())
    for v, d in sorted(F.variant_discr(FR).items()):
        key = "Frame::%s" % v
        if d in explicit:
            rf.ok(key, hf.where(), "explicit arm", nontrivial=False)
        else:
            rf.violation(key, hf.where(), "Frame::%s falls into a wildcard arm of ConnectionH2::handle_frame" % v)
    # ---------------- R-C15-g --------------------------------------------------
    rg = chk.rule("R-C15-g", "T5", "server-side stream creation behind the max-concurrent-streams comparison", floor=1)
    hs = [p for p in F.paths() if p.endswith("ConnectionH2::<Front>::handle_header_state")]
    if rg.require(hs, "handle_header_state not found"):
        b = F.body(hs[0])
        rg.fn(b.path)
        creates = [bi for bi, t in b.calls() if callee_of(t).endswith("ConnectionH2::<Front>::create_stream")]
        edges = []
        for sb, f, t, atom in guards.bool_switches(b):
            if atom[0] != "cmp":
                continue
            for tgt in (f, t):
                rel = lib.relation_on_edge(b, sb, tgt)
                if not rel:
                    continue
                op, sa, sbb, _ = rel
                a_len = any(fl == "streams" for _, fl in sa["fields"]) and any(c.endswith("::len") for c in sa["callees"])
                b_len = any(fl == "streams" for _, fl in sbb["fields"]) and any(c.endswith("::len") for c in sbb["callees"])
                a_max = any("max_concurrent_streams" in fl for _, fl in sa["fields"])
                b_max = any("max_concurrent_streams" in fl for _, fl in sbb["fields"])
                if (a_len and b_max and op == "Lt") or (b_len and a_max and op == "Gt"):
                    edges.append((sb, tgt))
        if rg.require(creates, "handle_header_state: create_stream call not found"):
            key = "%s|create_stream behind len<max" % b.path
            if edges and all(lib.guarded_by(b, x, edges) for x in creates):
                rg.ok(key, b.where(creates[0]), "create_stream only on a streams.len() < max_concurrent_streams edge %s" % edges)
            else:
                rg.violation(key, b.where(creates[0]), "a peer-initiated stream can be created without passing the streams.len() < max_concurrent_streams edge")


def activity_rule(F, chk):
    """R-C15-h: only application payload counts as stream progress. The per-stream idle guard reclaims
    MAX_CONCURRENT_STREAMS slots; a DATA frame refreshes `stream_last_activity_at` only behind a `> 0` test of a
    length derived from the frame's data, never of the wire length (padding-only frames are not progress)."""
    r = chk.rule("R-C15-h", "T5+T12", "stream activity is refreshed by DATA only for a non-empty application payload", floor=1)
    hd = [p for p in F.paths() if p.startswith(H2) and p.endswith("::handle_data_frame")]
    if not r.require(hd, "handle_data_frame not found"):
        return
    b = F.body(hd[0])
    r.fn(b.path)
    og = alias.Origins(b)
    sites = [s2["bb"] for s2 in alias.field_touch(b, og, H2, "stream_last_activity_at") if s2["kind"] == "call" and s2["direct"] and s2["callee"].endswith(("::insert", "::get_mut", "::entry"))]
    if not r.require(sites, "handle_data_frame: no update of stream_last_activity_at found"):
        return
    data_params = {l for l in range(1, b.argc + 1) if "parser::Data" in b.locals[l]}
    len_params = {l for l in range(1, b.argc + 1) if b.locals[l] in ("usize", "u32")}
    edges = []
    for sb, f, t, atom in guards.bool_switches(b):
        if atom[0] != "cmp":
            continue
        for tgt in (f, t):
            rel = lib.relation_on_edge(b, sb, tgt)
            if not rel:
                continue
            op, sa, sbb, _ = rel
            if op in ("Gt", "Ne") and any(str(c).startswith("0_") for c in sbb["consts"]) and (sa["params"] & data_params):
                edges.append((sb, tgt))
    for k, bi in enumerate(sites):
        key = "%s|activity refresh#%d" % (b.path, k)
        if edges and lib.guarded_by(b, bi, edges):
            r.ok(key, b.where(bi), "behind a `> 0` test of a length derived from the frame's data")
        else:
            r.violation(key, b.where(bi), "a DATA frame refreshes the stream's activity timestamp without a `> 0` test of its application payload length: padding-only frames keep an idle stream (and its MAX_CONCURRENT_STREAMS slot) alive forever")


def window_arith_rule(F, chk):
    """R-C15-i: flow-control windows move by peer-chosen amounts (WINDOW_UPDATE increments, SETTINGS_INITIAL_WINDOW_SIZE
    deltas up to 2^31-1).  Growing one with a raw `+` / `*` overflows i32 on a three-frame input: a panic of the
    single-threaded worker in builds with overflow checks, a silently wrapped (negative) window otherwise.  So every
    raw addition/multiplication whose operand is a window value is a violation (checked_add with an error path is
    the accepted form); raw subtraction is the debit by bytes actually sent (bounded by R-C14-a) and is only counted
    as the positive control of the matcher."""
    r = chk.rule("R-C15-i", "T6", "no unchecked growth of a flow-control window", floor=2)
    # configuration D compiles the debug_assert! post-conditions in, which restate `window == before + increment` after
    # the checked addition succeeded; the rule is about the shipped arithmetic and is evaluated without them
    r.only_cfgs = {"Q", "E", "T", "S", "O"}
    if chk.cfg == "D":
        return
    def is_win(b, o):
        pl = op_place(o)
        for _ in range(6):
            if isinstance(pl, int):
                d = b.single_def(pl)
                if d and d[2] == "assign" and d[3]["k"] == "use" and op_place(d[3]["a"]) is not None:
                    pl = op_place(d[3]["a"])
                    continue
            break
        fs = proj_fields(pl) if isinstance(pl, dict) else []
        return bool(fs and fs[-1][2] == "window")
    n = 0
    for b in F.grep("|window"):
        if not b.path.startswith((MUX, "<" + MUX)) or b.derived or "::tests::" in b.path:
            continue
        for bi, si, st in b.stmts():
            rv = st.get("rv")
            if not (rv and rv["k"] == "bin" and rv["op"] in ("Add", "Sub", "Mul", "Shl")):
                continue
            if not (is_win(b, rv["a"]) or is_win(b, rv["b"])):
                continue
            r.fn(b.path)
            if rv["op"] == "Sub":
                n += 1
                r.ok("%s|window debit#%d" % (b.path, n), b.where(bi, si), "raw subtraction (debit by bytes sent)", nontrivial=False)
            else:
                r.violation("%s|raw %s on a window" % (b.path, rv["op"]), b.where(bi, si), "a flow-control window is grown with an unchecked `%s`: a peer-chosen increment / SETTINGS delta overflows i32 (worker panic with overflow checks, wrapped negative window without)" % {"Add": "+", "Mul": "*", "Shl": "<<"}[rv["op"]])
    r.require(n >= 2, "only %d raw window debits found (positive control of the matcher)" % n)


def refused_stream_watermark_rule(F, chk):
    """R-C15-j: a stream the peer opened and sozu REFUSED is closed, not idle.  The classifier of later frames decides
    `closed vs idle` with `stream_id <= highest_peer_stream_id` (idle => connection error), so every refusal of a new
    stream must first raise that watermark exactly as an accepted stream does.  Siblings: each call of
    refuse_stream_and_discard in the header dispatcher follows the `if stream_id > highest { highest = stream_id }` step."""
    r = chk.rule("R-C15-j", "T8", "a refused stream still advances highest_peer_stream_id", floor=2)
    cands = [p for p in F.paths() if p.startswith(H2) and p.endswith("::handle_header_state")]
    if not r.require(cands, "handle_header_state not found"):
        return
    b = lib.flat(F, F.body(cands[0]), keep=("::refuse_stream_and_discard",))    # `raise the watermark, then refuse` may be one private helper
    r.fn(b.path)
    refusals = [bi for bi, t in b.calls() if callee_of(t).endswith("::refuse_stream_and_discard")]
    writes = [bi for bi, si, st in b.stmts() if isinstance(st.get("lhs"), dict) and proj_fields(st["lhs"]) and proj_fields(st["lhs"])[-1][2] == "highest_peer_stream_id"]
    # the step = a comparison with the watermark whose true edge performs the write; "passing the step" = passing that switch
    steps = []
    for sb, f, t, atom in guards.bool_switches(b):
        if atom[0] != "cmp" or f == t:
            continue
        sl = [guards.slice_of_operand(b, atom[2]), guards.slice_of_operand(b, atom[3])]
        if any(fl == "highest_peer_stream_id" for s_ in sl for _, fl in s_["fields"]) and any(w in b.reach_from([t]) or w in b.reach_from([f]) for w in writes):
            if any(w in (t, f) or w in b.reach_from([t]) for w in writes):
                steps.append(sb)
    if not r.require(refusals, "handle_header_state: no refuse_stream_and_discard call"):
        return
    for i, c in enumerate(sorted(refusals)):
        key = "%s|refusal#%d after the watermark step" % (b.path, i)
        if any(b.dominates(s_, c) for s_ in steps):
            r.ok(key, b.where(c), "dominated by the `stream_id > highest_peer_stream_id` update step")
        else:
            r.violation(key, b.where(c), "a new stream is refused without raising highest_peer_stream_id first: a DATA / RST_STREAM / WINDOW_UPDATE already in flight for it is then classified as a frame on an IDLE stream and answered with GOAWAY(PROTOCOL_ERROR), tearing down every healthy stream of the connection")
