import os
"""Check harness: obligations, floors, known findings, evidence, exit codes."""
import json, os, sys, time

VERIF = os.path.dirname(os.path.dirname(os.path.abspath(__file__)))
KNOWN = os.path.join(VERIF, "known_findings.txt")


def load_known():
    """-> {property: {key: text}} for 'known:' lines; 'fixed:' lines suppress nothing"""
    out = {}
    if not os.path.exists(KNOWN):
        return out
    for line in open(KNOWN):
        line = line.strip()
        if not line.startswith("known:"):
            continue
        body = line[len("known:"):].strip()
        head, _, text = body.partition(" :: ")
        parts = head.split(None, 1)
        prop = parts[0].split("=", 1)[1]
        key = parts[1].split("=", 1)[1].strip()
        out.setdefault(prop, {})[key] = text.strip()
    return out


class Rule:
    def __init__(self, chk, rid, template, text, floor):
        self.chk, self.id, self.template, self.text, self.floor = chk, rid, template, text, floor
        self.sites = []       # dicts: key, status, where, detail, nontrivial
        self.analysed = set()
        self.broken = []

    def _add(self, status, key, where, detail, nontrivial, replay=None):
        k = "%s|%s" % (self.id, key)
        self.sites.append({"key": k, "status": status, "where": where, "detail": detail,
                           "nontrivial": bool(nontrivial), "cfg": self.chk.cfg, "replay": replay})

    def ok(self, key, where="", detail="", nontrivial=True):
        self._add("ok", key, where, detail, nontrivial)

    def violation(self, key, where, detail, replay=None):
        self._add("violation", key, where, detail, True, replay)

    def info(self, key, where="", detail=""):
        self._add("info", key, where, detail, False)

    def fn(self, *paths):
        self.analysed.update(paths)

    def broke(self, msg):
        self.broken.append("[%s cfg=%s] %s" % (self.id, self.chk.cfg, msg))

    def require(self, cond, msg):
        if not cond:
            self.broke(msg)
        return cond


class Check:
    def __init__(self, prop, tier):
        self.prop, self.tier = prop, tier
        self.rules = {}
        self.cfg = "Q"
        self.cfgs = []
        self.t0 = time.time()
        self.assumptions = []
        self.explanation = ""
        self.not_decided = ""
        self.extra = {}

    def rule(self, rid, template, text, floor=1):
        r = self.rules.get(rid)
        if r is None:
            r = Rule(self, rid, template, text, floor)
            self.rules[rid] = r
        return r

    def finish(self):
        known = load_known().get(self.prop, {})
        vb = os.environ.get("VERIF_VERBOSE")
        if vb:
            for r in self.rules.values():
                if vb == "all" or r.id == vb:
                    for s_ in r.sites:
                        print("  [%s] %s %s @%s :: %s" % (s_["cfg"], s_["status"], s_["key"], s_["where"], s_["detail"][:160]))
        broken, viol, knownhit = [], {}, {}
        obligations = discharged = 0
        samples, rules_out = [], []
        nontriv = set()
        evals = 0
        for rid, r in self.rules.items():
            per_cfg = {}
            for s in r.sites:
                if s["status"] == "info":
                    continue
                per_cfg.setdefault(s["cfg"], 0)
                per_cfg[s["cfg"]] += 1
            for c in self.cfgs:
                only = getattr(r, "only_cfgs", None)
                if only is not None and c not in only:
                    continue
                n = per_cfg.get(c, 0)
                if n < r.floor:
                    broken.append("[%s cfg=%s] matched %d sites < floor %d" % (rid, c, n, r.floor))
            broken.extend(r.broken)
            seen = set()
            nv = 0
            for s in r.sites:
                evals += 1 if s["status"] != "info" else 0
                if s["key"] in seen:
                    continue
                seen.add(s["key"])
                if s["status"] == "info":
                    continue
                obligations += 1
                if s["nontrivial"]:
                    nontriv.add(s["key"])
            bad = {}
            for s in r.sites:
                if s["status"] == "violation":
                    bad.setdefault(s["key"], s)
            for k, s in bad.items():
                if k in known:
                    knownhit[k] = (known[k], s)
                else:
                    viol[k] = s
                nv += 1
            discharged += len(seen - set(bad) - {s["key"] for s in r.sites if s["status"] == "info"})
            ex = [s for s in r.sites if s["status"] == "ok"][:3] + list(bad.values())[:3]
            for s in ex:
                samples.append({"rule": rid, "site": s["key"], "where": s["where"],
                                "status": s["status"], "detail": s["detail"][:300]})
            rules_out.append({"id": rid, "template": r.template, "rule": r.text, "floor": r.floor,
                              "sites": len(seen), "violations": nv,
                              "functions_analysed": sorted(r.analysed)[:60],
                              "n_functions_analysed": len(r.analysed),
                              "info": [{"site": s["key"], "detail": s["detail"][:300]}
                                       for s in r.sites if s["status"] == "info"][:40]})
        for k, (text, s) in sorted(knownhit.items()):
            print("KNOWN-FINDING: property=%s %s at %s :: %s" % (self.prop, k, s["where"], text))
        rc = 0
        replay = os.path.join(VERIF, "evidence", self.prop + ".violation.json")
        if viol:
            with open(replay, "w") as fh:
                json.dump({"property": self.prop, "violations": list(viol.values())}, fh, indent=1)
            for k, s in sorted(viol.items()):
                print("  violation %s at %s: %s" % (k, s["where"], s["detail"]))
            print("VIOLATION property=%s replay=%s" % (self.prop, replay))
            rc = 1
        elif os.path.exists(replay):
            os.remove(replay)
        if broken:
            for b in broken:
                print("BROKEN property=%s %s" % (self.prop, b))
            if rc == 0:
                rc = 2
        ev = {
            "property_id": self.prop, "tier": self.tier,
            "seed": int(os.environ.get("VERIF_SEED", "0") or 0),
            "level": "other",
            "coverage": {
                "explanation": self.explanation,
                "not_decided": self.not_decided,
                "obligations": obligations, "discharged": discharged,
                "evaluations": max(evals, 0), "distinct_nontrivial": len(nontriv),
                "rule": "one obligation per (rule instance, function, site) found in the MIR of /repo's "
                        "working tree; evaluations counts sites x configurations; non-trivial = the site's "
                        "verdict required a path/dominance/slice query (not a mere presence test)",
                "samples": samples[:40],
                "rules": rules_out,
                "configurations": self.cfgs,
                "known_findings_hit": sorted(knownhit),
                "broken": broken,
                "checker_cmd": "./check %s --tier %s" % (self.prop, self.tier),
                "trusted_base": ["rustc nightly MIR construction + Instance::try_resolve",
                                 "sozu-facts driver (driver/src/main.rs)",
                                 "python rule engine (rules/)",
                                 "external crates' documented contracts (kawa, rustls, mio, loona-hpack, prost, nom)"],
                "exhaustive": False,
            },
            "assumptions": self.assumptions,
            "wall_s": round(time.time() - self.t0, 2),
            "violations": len(viol),
        }
        ev["coverage"].update(self.extra)
        os.makedirs(os.path.join(VERIF, "evidence"), exist_ok=True)
        with open(os.path.join(VERIF, "evidence", self.prop + ".json"), "w") as fh:
            json.dump(ev, fh, indent=1)
        print("%s tier=%s cfgs=%s rules=%d obligations=%d discharged=%d violations=%d known=%d broken=%d wall=%.1fs"
              % (self.prop, self.tier, ",".join(self.cfgs), len(self.rules), obligations, discharged,
                 len(viol), len(knownhit), len(broken), time.time() - self.t0))
        return rc
