"""Shared rule helpers (site enumeration, simple path counting, relation normalisation)."""
from mir import op_place, op_local, op_const, pl_local, pl_proj, callee_of, proj_fields
import guards
from guards import NEG, SWAP


def short(path):
    return path.split("::")[-1]


def agg_sites(body, adt_suffix, variant=None):
    """statements constructing an aggregate of ADT (path suffix match) / variant"""
    out = []
    for bi, si, s in body.stmts():
        rv = s.get("rv")
        if rv and rv["k"] == "agg" and rv.get("ak") == "adt" and rv["adt"].endswith(adt_suffix):
            if variant is None or rv["var"] == variant:
                out.append((bi, si, s))
    return out


def calls_named(body, pred):
    """call terminators whose callee (fn or resolved) satisfies pred(name)"""
    out = []
    for bi, t in body.calls():
        if any(n and pred(n) for n in (t.get("fn"), t.get("res"))):
            out.append((bi, t))
    return out


def path_counts(body, weight, start=0, cap=2, removed=(), limit=400000, stops=()):
    """set of capped event counts over all acyclic-in-state paths from `start` to a Return.
    weight: dict bb -> int (events in that block) or bb -> set of ints (callee summaries)."""
    sc = body.succ()
    removed = set(removed)
    seen = set()
    res = set()
    st = [(start, 0)]
    n = 0
    while st:
        b, c = st.pop()
        if (b, c) in seen:
            continue
        seen.add((b, c))
        n += 1
        if n > limit:
            raise RuntimeError("path_counts state explosion in " + body.path)
        w = weight.get(b, 0)
        ws = w if isinstance(w, (set, frozenset, list, tuple)) else [w]
        for wi in ws:
            c2 = min(cap, c + wi)
            if body.blocks[b]["t"]["k"] == "ret" or b in stops:
                res.add(c2)
                if b in stops:
                    continue
            for y in sc[b]:
                if (b, y) in removed:
                    continue
                st.append((y, c2))
    return res


def relation_on_edge(body, switch_bb, target):
    """If the switch at `switch_bb` tests a comparison, return (op, sliceA, sliceB) that HOLDS on the
    edge to `target`; slices are backward data slices of the operands. None when not a comparison."""
    be = guards.bool_edges(body, switch_bb)
    if be is None:
        return None
    l = op_local(body.blocks[switch_bb]["t"]["op"])
    if l is None:
        return None
    neg, atom = guards.cond_atom(body, l, at=switch_bb)
    if atom[0] != "cmp":
        return None
    op = atom[1]
    f, t = be
    truth = (target == t)
    if f == t:
        return None
    if neg:
        truth = not truth
    if not truth:
        op = NEG[op]
    return op, guards.slice_of_operand(body, atom[2]), guards.slice_of_operand(body, atom[3]), atom


def has_field(sl, adt_suffix, field):
    return any(a.endswith(adt_suffix) and f == field for (a, f) in sl["fields"])


def has_callee(sl, suffix):
    return any(c.endswith(suffix) for c in sl["callees"])


def edges_where(body, pred):
    """all boolean-switch edges (bb, target, truth, atom) for which pred(bb, truth, atom) holds;
    truth = value of the (de-negated) atom on that edge"""
    out = []
    for bi, f, t, atom in guards.bool_switches(body):
        if f == t:
            continue
        for truth, tgt in ((False, f), (True, t)):
            if pred(bi, truth, atom):
                out.append((bi, tgt))
    return out


def guarded_by(body, site_bb, accept_edges):
    """True iff every path entry -> site_bb uses one of accept_edges (edge removal makes it unreachable)"""
    if site_bb not in body.reachable():
        return True
    return site_bb not in guards.reach_without_edges(body, accept_edges)


def site_id(body, bi):
    """line-free identity of a call site: function, callee, ordinal among same-callee calls (block order)"""
    t = body.blocks[bi]["t"]
    c = callee_of(t)
    n = 0
    for bj, tj in body.calls():
        if bj == bi:
            break
        if callee_of(tj) == c:
            n += 1
    fn = body.path
    return "%s>%s#%d" % (fn, c.split("::")[-1], n)


def field_mut_calls(F, adt, field, grep_hint=None):
    """all call sites (body, bb, callee) where a &mut borrow of field (adt, field) itself reaches a callee
    as an argument (i.e. a method is invoked on that field mutably), across the three crates"""
    import alias
    out = []
    hint = grep_hint or ("f|%s|" % adt)
    for b in F.grep(hint, "|" + field):
        og = alias.Origins(b)
        for site in alias.field_touch(b, og, adt, field):
            if site["kind"] == "call" and site["direct"]:
                out.append((b, site["bb"], site["callee"]))
    return out


def field_mut_calls_in(b, adt, field):
    """field_mut_calls restricted to one (possibly flattened) body: [(bb, callee)]"""
    import alias
    og = alias.Origins(b)
    return [(site["bb"], site["callee"]) for site in alias.field_touch(b, og, adt, field)
            if site["kind"] == "call" and site["direct"]]


def flags_set_after_call(F, parent, callee_suffix):
    """Locals of `parent` that a closure of it sets to `true` (through a by-reference capture) on the Some/Err edge of a
    call to `callee_suffix`: the structural identity of an `invalid input seen` flag, independent of its name.
    Also accepts the flag being set in `parent` itself. Returns a set of parent locals."""
    out = set()
    def scan(body, resolve):
        for bi, t in body.calls():
            if not callee_of(t).endswith(callee_suffix):
                continue
            dest = t.get("dest")
            if not isinstance(dest, int):
                continue
            # edges of the discriminant switch on the result other than the `nothing wrong` one (variant 0 = None / Ok)
            starts = []
            for sb in body.reachable():
                tt = body.blocks[sb]["t"]
                if tt["k"] != "switch":
                    continue
                l = op_local(tt["op"])
                d = body.single_def(l) if l is not None else None
                if d and d[2] == "assign" and d[3]["k"] == "discr" and pl_local(d[3]["pl"]) == dest:
                    starts += [tg for v, tg in tt["ts"] if int(v) != 0]
                    if any(int(v) == 0 for v, tg in tt["ts"]):
                        starts.append(tt["else"])
            if not starts:
                continue
            region = body.reach_from(starts)
            for rb in region:
                for s2 in body.blocks[rb]["s"]:
                    rv = s2.get("rv")
                    if not (rv and rv["k"] == "use" and op_const(rv["a"]) in (1, "1", True)):
                        continue
                    if rv["a"].get("ty") != "bool":
                        continue
                    x = resolve(body, s2["lhs"])
                    if x is not None:
                        out.add(x)
    def res_parent(body, lhs):
        return lhs if isinstance(lhs, int) else None
    scan(parent, res_parent)
    for cp in F.closures_of(parent.path):
        cb = F.body(cp)
        # upvar index -> parent local, from the closure aggregate in the parent
        upmap = {}
        for bi, si, s2 in parent.stmts():
            rv = s2.get("rv")
            if rv and rv["k"] == "agg" and rv.get("ak") == "closure" and rv.get("clo") == cp:
                for i, o in enumerate(rv["ops"]):
                    l = op_local(o)
                    d = parent.single_def(l) if l is not None else None
                    if d and d[2] == "assign" and d[3]["k"] in ("ref", "raw") and isinstance(d[3]["pl"], int):
                        upmap[i] = d[3]["pl"]
        def res_clo(body, lhs):
            if isinstance(lhs, int) or lhs["p"] != ["*"]:
                return None
            ds = [x for x in body.defs().get(lhs["l"], []) if x[2] == "assign"]
            d = ds[0] if len(ds) == 1 else None
            if not (d and d[3]["k"] == "use"):
                return None
            pl = op_place(d[3]["a"])
            if isinstance(pl, dict) and pl["l"] == 1 and len(pl["p"]) == 2 and pl["p"][0] == "*" and pl["p"][1].startswith("u|"):
                return upmap.get(int(pl["p"][1].rsplit("|", 1)[1]))
            return None
        scan(cb, res_clo)
    return out


def flat(F, body, keep=(), policy="private", depth=3):
    """the body with private helpers spliced in and constant-carrying jumps threaded (see inline.py): the form on which
    guard/dominance rules are evaluated, so that extracting a predicate or a block into a helper, or hoisting a condition
    into a local, does not change a verdict"""
    import inline
    return inline.threaded(F, inline.inlined(F, body, keep=keep, policy=policy, depth=depth))


def only_called_from(F, path, allowed):
    """True iff every call site of workspace function `path` lies in one of the bodies `allowed` (closures of an allowed
    body count as that body)"""
    for b, bi, t in F.call_sites(path):
        root = b.root if "{closure" in b.path else b.path
        if b.path not in allowed and root not in allowed:
            return False
    return True


def fold_private_writers(F, touched, is_allowed):
    """Closed-writer-set rules must not fire when an allowed writer moves part of its work into a private helper.
    `touched`: {function path: set of things it writes}.  A writer that is not allowed, is not `pub`, has at least one
    call site and is called only from allowed writers (or from helpers already folded into them) is folded into each of
    its callers.  Returns (new_touched, folded: {helper: sorted callers})."""
    touched = {k: set(v) for k, v in touched.items()}
    # private functions that only reach the state through other (non-allowed) writers take part as empty writers,
    # so that a chain  allowed -> helper A -> helper B(writes)  folds bottom-up
    grew = True
    while grew:
        grew = False
        for fn in list(touched):
            if is_allowed(fn) or not F.has(fn):
                continue
            for cb, bi, t in F.call_sites(fn):
                c = cb.root if "{closure" in cb.path else cb.path
                if c != fn and c not in touched and not is_allowed(c) and F.has(c) and not F.body(c).rec.get("pub"):
                    touched[c] = set()
                    grew = True
    folded = {}
    changed = True
    while changed:
        changed = False
        for fn in sorted(touched):
            if is_allowed(fn) or not F.has(fn):
                continue
            b = F.body(fn)
            if b.rec.get("pub") or "{closure" in fn:
                continue
            callers = set()
            for cb, bi, t in F.call_sites(fn):
                callers.add(cb.root if "{closure" in cb.path else cb.path)
            callers.discard(fn)
            # a caller is fine if it is an allowed writer, or a helper that was itself folded into allowed writers
            if not callers or not all(is_allowed(c) or c in folded for c in callers):
                continue
            targets = set()
            for c in callers:
                targets |= {c} if is_allowed(c) else set(folded[c])
            for c in targets:
                touched.setdefault(c, set()).update(touched[fn])
            folded[fn] = sorted(targets)
            del touched[fn]
            changed = True
    return touched, folded


def empty_edges(body, field):
    """CFG edges on which the collection stored in struct field `field` is known to be empty, however the test is
    spelled: `x.is_empty()` true, `!x.is_empty()` false, `x.len() == 0`, `x.len() > 0` false, `0 < x.len()` false"""
    out = []
    for bi, f, t, atom in guards.bool_switches(body):
        if f == t:
            continue
        if atom[0] == "call" and atom[1].endswith("::is_empty"):
            if any(fl == field for a in atom[2]["args"] for _, fl in guards.slice_of_operand(body, a)["fields"]):
                out.append((bi, t))
        elif atom[0] == "cmp":
            for tgt in (f, t):
                rel = relation_on_edge(body, bi, tgt)
                if not rel:
                    continue
                op, sa, sb, _ = rel
                a_len = any(fl == field for _, fl in sa["fields"]) and any(c.endswith("::len") for c in sa["callees"])
                b_len = any(fl == field for _, fl in sb["fields"]) and any(c.endswith("::len") for c in sb["callees"])
                a_zero = any(str(c).startswith("0_") for c in sa["consts"]) and not sa["fields"]
                b_zero = any(str(c).startswith("0_") for c in sb["consts"]) and not sb["fields"]
                if (a_len and b_zero and op in ("Eq", "Le")) or (b_len and a_zero and op in ("Eq", "Ge")):
                    out.append((bi, tgt))
    return out


def owner_of(F, body, limit=4, stop_at=()):
    """the function a private helper belongs to: climbs while the body is not `pub`, is not a trait-impl method and every
    call site of it lies in one single other function.  Rules that key their verdicts by function use the owner, so that
    moving code into a helper does not rename a verdict (or a known finding)."""
    b = body
    for _ in range(limit):
        if b.path in stop_at or b.rec.get("pub") or b.trait or "{closure" in b.path:
            return b
        callers = set()
        for cb, bi, t in F.call_sites(b.path):
            callers.add(cb.root if "{closure" in cb.path else cb.path)
        callers.discard(b.path)
        if len(callers) != 1:
            return b
        b = F.body(next(iter(callers)))
    return b


def state_gates(body, site_bb, fields):
    """Switches (boolean or on an enum discriminant) that consult a struct field named in `fields` and separate
    `site_bb` from at least one of their outcomes: returns the edges through which the site stays reachable.
    Polarity- and representation-agnostic (`bool` flag, two-variant enum, Option): what matters is that the state is
    consulted and that one of its outcomes excludes the site."""
    out = []
    sc = body.succ()
    for sb in sorted(body.reachable()):
        t = body.blocks[sb]["t"]
        if t["k"] != "switch" or len(sc[sb]) < 2:
            continue
        l = op_local(t["op"])
        if l is None:
            continue
        sl = body.slice_back([l])
        if not any(f in fields for _, f in sl["fields"]):
            continue
        can = [y for y in sc[sb] if site_bb in body.reach_from([y], removed=[sb])]
        if can and len(can) < len(sc[sb]):
            out += [(sb, y) for y in can]
    return out


def value_root(b, l):
    """follow plain copies, (re)borrows and the one-element tuples format_args! builds, to the local whose value is meant"""
    for _ in range(12):
        d = b.single_def(l) if l is not None else None
        if not (d and d[2] == "assign"):
            break
        rv2 = d[3]
        if rv2["k"] in ("use", "cast"):
            pl = op_place(rv2["a"])
            if isinstance(pl, int):
                l = pl
                continue
            if isinstance(pl, dict) and len(pl["p"]) == 1 and pl["p"][0].startswith("t|"):
                dd = b.single_def(pl["l"])
                if dd and dd[2] == "assign" and dd[3]["k"] == "agg" and dd[3].get("ak") == "tuple":
                    l = op_local(dd[3]["ops"][int(pl["p"][0][2:])])
                    continue
            break
        if rv2["k"] in ("ref", "raw"):
            pl = rv2["pl"]
            if isinstance(pl, int):
                l = pl
                continue
            if pl["p"] == ["*"]:
                l = pl["l"]
                continue
        break
    return l


def rendered_values(b, op):
    """locals whose value is formatted into the text that operand `op` carries (arguments of fmt::rt::Argument::new_*)"""
    sl = guards.slice_of_operand(b, op)
    out = set()
    for x, tt in b.calls():
        if "fmt::rt::Argument" in callee_of(tt) and isinstance(tt.get("dest"), int) and tt["dest"] in sl["locals"] and tt["args"]:
            out.add(value_root(b, op_local(tt["args"][0])))
    out.discard(None)
    return out


def is_field_value(b, op, field):
    """the operand IS the value of a struct field named `field` (a chain of plain copies ending at a place whose last
    projection is that field), not merely derived from it"""
    pl = op_place(op)
    for _ in range(8):
        if isinstance(pl, int):
            d = b.single_def(pl)
            if d and d[2] == "assign" and d[3]["k"] in ("use", "cast") and op_place(d[3]["a"]) is not None:
                pl = op_place(d[3]["a"])
                continue
        break
    fs = proj_fields(pl) if isinstance(pl, dict) else []
    return bool(fs and fs[-1][2] == field)
