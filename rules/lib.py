"""Shared rule helpers (site enumeration, simple path counting, relation normalisation)."""
from mir import op_place, op_local, op_const, pl_local, pl_proj, callee_of, proj_fields
import guards
from guards import NEG, SWAP


def short(path):
    return path.split("::")[-1]


def agg_sites(body, adt_suffix, variant=None):
    """statements constructing an aggregate of ADT (path suffix match) / variant"""
    out = []
    for bi, si, s in body.stmts():
        rv = s.get("rv")
        if rv and rv["k"] == "agg" and rv.get("ak") == "adt" and rv["adt"].endswith(adt_suffix):
            if variant is None or rv["var"] == variant:
                out.append((bi, si, s))
    return out


def calls_named(body, pred):
    """call terminators whose callee (fn or resolved) satisfies pred(name)"""
    out = []
    for bi, t in body.calls():
        if any(n and pred(n) for n in (t.get("fn"), t.get("res"))):
            out.append((bi, t))
    return out


def path_counts(body, weight, start=0, cap=2, removed=(), limit=400000, stops=()):
    """set of capped event counts over all acyclic-in-state paths from `start` to a Return.
    weight: dict bb -> int (events in that block) or bb -> set of ints (callee summaries)."""
    sc = body.succ()
    removed = set(removed)
    seen = set()
    res = set()
    st = [(start, 0)]
    n = 0
    while st:
        b, c = st.pop()
        if (b, c) in seen:
            continue
        seen.add((b, c))
        n += 1
        if n > limit:
            raise RuntimeError("path_counts state explosion in " + body.path)
        w = weight.get(b, 0)
        ws = w if isinstance(w, (set, frozenset, list, tuple)) else [w]
        for wi in ws:
            c2 = min(cap, c + wi)
            if body.blocks[b]["t"]["k"] == "ret" or b in stops:
                res.add(c2)
                if b in stops:
                    continue
            for y in sc[b]:
                if (b, y) in removed:
                    continue
                st.append((y, c2))
    return res


def relation_on_edge(body, switch_bb, target):
    """If the switch at `switch_bb` tests a comparison, return (op, sliceA, sliceB) that HOLDS on the
    edge to `target`; slices are backward data slices of the operands. None when not a comparison."""
    be = guards.bool_edges(body, switch_bb)
    if be is None:
        return None
    l = op_local(body.blocks[switch_bb]["t"]["op"])
    if l is None:
        return None
    neg, atom = guards.cond_atom(body, l)
    if atom[0] != "cmp":
        return None
    op = atom[1]
    f, t = be
    truth = (target == t)
    if f == t:
        return None
    if neg:
        truth = not truth
    if not truth:
        op = NEG[op]
    return op, guards.slice_of_operand(body, atom[2]), guards.slice_of_operand(body, atom[3]), atom


def has_field(sl, adt_suffix, field):
    return any(a.endswith(adt_suffix) and f == field for (a, f) in sl["fields"])


def has_callee(sl, suffix):
    return any(c.endswith(suffix) for c in sl["callees"])


def edges_where(body, pred):
    """all boolean-switch edges (bb, target, truth, atom) for which pred(bb, truth, atom) holds;
    truth = value of the (de-negated) atom on that edge"""
    out = []
    for bi, f, t, atom in guards.bool_switches(body):
        if f == t:
            continue
        for truth, tgt in ((False, f), (True, t)):
            if pred(bi, truth, atom):
                out.append((bi, tgt))
    return out


def guarded_by(body, site_bb, accept_edges):
    """True iff every path entry -> site_bb uses one of accept_edges (edge removal makes it unreachable)"""
    if site_bb not in body.reachable():
        return True
    return site_bb not in guards.reach_without_edges(body, accept_edges)


def site_id(body, bi):
    """line-free identity of a call site: function, callee, ordinal among same-callee calls (block order)"""
    t = body.blocks[bi]["t"]
    c = callee_of(t)
    n = 0
    for bj, tj in body.calls():
        if bj == bi:
            break
        if callee_of(tj) == c:
            n += 1
    fn = body.path
    return "%s>%s#%d" % (fn, c.split("::")[-1], n)


def field_mut_calls(F, adt, field, grep_hint=None):
    """all call sites (body, bb, callee) where a &mut borrow of field (adt, field) itself reaches a callee
    as an argument (i.e. a method is invoked on that field mutably), across the three crates"""
    import alias
    out = []
    hint = grep_hint or ("f|%s|" % adt)
    for b in F.grep(hint, "|" + field):
        og = alias.Origins(b)
        for site in alias.field_touch(b, og, adt, field):
            if site["kind"] == "call" and site["direct"]:
                out.append((b, site["bb"], site["callee"]))
    return out
