"""C20 - a configuration file means exactly what it declares (structural clauses)."""
import cover, guards, lib
from mir import callee_of, op_place, op_local, op_const, pl_local

CFG = "sozu_command_lib::config::"
RT = "sozu_command_lib::proto::command::request::RequestType"
NARROW = ("u8", "u16", "i8", "i16")
INPUT_STRUCTS = ["FileConfig", "ListenerBuilder", "FileClusterConfig", "FileClusterFrontendConfig", "BackendConfig",
                 "FileHealthCheckConfig", "FileUdpClusterConfig", "FileUdpHealthConfig", "FileHstsConfig",
                 "HeaderEditConfig", "MetricsConfig"]


def on_cycle(body, bi):
    return bi in body.reach_from(body.succ()[bi])


def run(F, chk):
    chk.explanation = (
        "Structural necessary conditions of 'the loaded configuration is what the file declares' decided on the compiled "
        "loader: (a) no message/entry counter narrower than 32 bits is incremented inside a loop over a configuration "
        "collection; (b) every key of the TOML input structs is read by non-derived code (a never-read key is accepted and "
        "silently dropped); (c) Config is returned only past the H2 buffer-size test, and the documented pairing "
        "constraints have reachable rejecting sites; (e) generate_config_messages reads every collection of Config and "
        "constructs the creating verb for each.")
    chk.not_decided = "value equality between file and loaded state, idempotence of reload, defaults' numeric values"
    # ---------------- R-C20-a --------------------------------------------------
    ra = chk.rule("R-C20-a", "T13", "no narrow (<32 bit) counter incremented per element of a configuration collection", floor=3)
    scope = [p for p in F.paths() if p.startswith(CFG) or p.startswith("<" + CFG) or p.startswith("sozu_command_lib::state::ConfigState::generate")
             or p.startswith("sozu_command_lib::state::ConfigState::diff") or p.startswith("sozu::command::requests::load_")]
    nloops = 0
    for p in sorted(scope):
        b = F.body(p)
        if b.derived:
            continue
        has_iter_loop = False
        bad = []
        for bi, t in b.calls():
            if t.get("fn") == "core::iter::traits::iterator::Iterator::next" and on_cycle(b, bi):
                has_iter_loop = True
        if not has_iter_loop:
            continue
        nloops += 1
        ra.fn(p)
        for bi, si, s in b.stmts():
            rv = s.get("rv")
            if rv and rv["k"] == "bin" and rv["op"].startswith("Add") and on_cycle(b, bi):
                a = op_local(rv["a"])
                ty = b.locals[a] if a is not None else ""
                if ty in NARROW:
                    bad.append((bi, si, a, ty))
        if bad:
            names = sorted({b.local_name(a) or "_%d" % a for _, _, a, _ in bad})
            ra.violation("%s|narrow counter %s" % (p, ",".join(names)), b.where(bad[0][0], bad[0][1]),
                         "%s counter(s) %s incremented once per element of a configuration collection (%d sites): the %dth element overflows (panic in debug, wrap and duplicate ids in release)"
                         % (bad[0][3], names, len(bad), 2 ** (8 if "8" in bad[0][3] else 16)))
        else:
            ra.ok("%s|collection loops" % p, b.where(), "no narrow counter on its collection loops")
    # ---------------- R-C20-b --------------------------------------------------
    rb = chk.rule("R-C20-b", "T7a", "every key of the TOML input structs is read by hand-written code", floor=100)
    reads = {}
    for s in INPUT_STRUCTS:
        adt = CFG + s
        fields = [f["name"] for f in F.fields(adt)]
        got = set()
        for b in F.grep("f|%s|" % adt):
            r, _ = cover.body_field_reads(b, adt)
            got |= {f for (_, f) in r}
        for f in fields:
            key = "%s.%s" % (s, f)
            if f in got:
                rb.ok(key, "", "read", nontrivial=False)
            else:
                rb.violation(key, "%s:%d" % (F.adt(adt)["file"], F.adt(adt)["line"]),
                             "config key %s.%s is deserialised but never read: a file that sets it is accepted and the setting silently dropped" % (s, f))
    key_template_rule(F, chk)
    # ---------------- R-C20-c --------------------------------------------------
    rc = chk.rule("R-C20-c", "T5", "Config is built only past the H2 buffer test; pairing constraints have rejecting sites", floor=4)
    ic = lib.flat(F, F.body(CFG + "ConfigBuilder::into_config"))     # private checks moved into helpers count as part of it
    rc.fn(ic.path)
    ok_rets = [(bi, si) for bi, si, s in ic.stmts() if s.get("rv", {}).get("k") == "agg" and s["rv"].get("adt") == "core::result::Result"
               and s["rv"].get("var") == "Ok" and s.get("lhs") == 0]
    edges = []
    for bi, f, t, atom in guards.bool_switches(ic):
        if atom[0] != "cmp":
            continue
        for tgt in (f, t):
            rel = lib.relation_on_edge(ic, bi, tgt)
            if not rel:
                continue
            op, sa, sb, _ = rel
            a_buf = any(fl == "buffer_size" for (_, fl) in sa["fields"])
            b_min = any(c and "H2_MIN_BUFFER_SIZE" in str(c) for c in sb["consts"])
            a_cnt = any(c.endswith("Iterator>::count") or c.endswith("Iterator::count") for c in sa["callees"])
            if a_buf and b_min and op == "Ge":
                edges.append((bi, tgt))
            if a_cnt and op in ("Le", "Eq") and any(str(c).startswith("0") for c in sb["consts"]):
                edges.append((bi, tgt))
    if rc.require(ok_rets, "into_config: Ok(..) return not found"):
        key = "%s|Ok behind H2 buffer test" % ic.path
        if edges and all(lib.guarded_by(ic, bi, edges) for bi, _ in ok_rets):
            rc.ok(key, ic.where(ok_rets[0][0]), "Ok(config) only reachable through buffer_size >= H2_MIN_BUFFER_SIZE or zero h2 listeners: %s" % edges)
        else:
            rc.violation(key, ic.where(ok_rets[0][0]), "Config can be returned without passing the `no h2 listener or buffer_size >= H2_MIN_BUFFER_SIZE` test")
    fam = cover.reach_functions(F, ic.path, depth=3)
    errs = cover.variants_constructed(F, fam, CFG + "ConfigError")
    for need in ("BufferSizeTooSmallForH2", "WrongFrontendProtocol", "ListenerAddressAlreadyInUse", "Missing"):
        key = "ConfigError::%s site" % need
        if need in errs:
            rc.ok(key, "", "%d rejecting site(s) in the builder path" % len(errs[need]), nontrivial=False)
        else:
            rc.violation(key, ic.where(), "no site of the builder path rejects with ConfigError::%s any more" % need)
    # ---------------- R-C20-g --------------------------------------------------
    # A frontend inherits (certificate, ...) from *its* listener: wherever the builder searches the listeners with a
    # predicate that compares the listener's address, the predicate can only say `this one` when the addresses are equal:
    # on the edge where the address comparison failed the closure returns false.
    rg = chk.rule("R-C20-g", "T5", "listener lookups by address never match a listener at another address", floor=1)
    n_g = 0
    seen_g = set()
    for root in (CFG + "ConfigBuilder::populate_clusters", CFG + "ConfigBuilder::populate_listeners", CFG + "ConfigBuilder::into_config"):
        if not F.has(root):
            continue
        for cp in sorted(set(cover.reach_functions(F, root, depth=2))):
            if "{closure" not in cp or not cp.startswith(CFG):
                continue
            if cp in seen_g:
                continue
            seen_g.add(cp)
            cb = lib.flat(F, F.body(cp))
            if cb.locals[0] != "bool":
                continue
            cmpc = [(bi, t) for bi, t in cb.calls() if (t.get("fn") or "").endswith(("PartialEq::eq", "PartialEq::ne"))
                    and (t.get("recv") or "").lstrip("&").endswith("SocketAddress")
                    and any(f == "address" for a in t["args"] for _, f in guards.slice_of_operand(cb, a)["fields"])]
            if not cmpc:
                continue
            rg.fn(cp)
            def neq(sb, truth, atom):
                if atom[0] != "call" or atom[2] is not cmpc[0][1]:
                    return False
                return truth is (not (atom[1].endswith("eq")))
            miss_edges = lib.edges_where(cb, neq)
            n_g += 1
            key = "%s|false when the address differs" % cp
            if not miss_edges:
                rg.violation(key, cb.where(cmpc[0][0]), "the address comparison does not decide the predicate's result")
                continue
            bad = []
            region = cb.reach_from([tg for _, tg in miss_edges])
            for bi in region:
                for si, st in enumerate(cb.blocks[bi]["s"]):
                    if st.get("lhs") == 0 and not (st["rv"]["k"] == "use" and op_const(st["rv"]["a"]) == 0):
                        bad.append((bi, si))
                t = cb.blocks[bi]["t"]
                if t["k"] == "call" and t.get("dest") == 0:
                    bad.append((bi, None))
            if bad:
                rg.violation(key, cb.where(bad[0][0], bad[0][1]), "the lookup predicate can accept a listener whose address differs from the one searched for: a frontend then inherits the settings (certificate, key, chain) of another listener, and a configuration that should be rejected is accepted")
            else:
                rg.ok(key, cb.where(cmpc[0][0]), "returns false on the address-mismatch edge")
    rg.require(n_g >= 1, "no listener lookup predicate comparing addresses found in the builder")
    # ---------------- R-C20-h --------------------------------------------------
    # One listener per address, whatever the protocols: ListenerAddressAlreadyInUse is decided by PRESENCE of the address
    # among the known ones (contains_key / insert(..).is_some() / a Some arm), never by comparing the value stored for it.
    rh = chk.rule("R-C20-h", "T5", "a second listener on a known address is rejected whatever its protocol", floor=1)
    for root in (CFG + "ConfigBuilder::populate_listeners",):
        if not rh.require(F.has(root), "populate_listeners not found"):
            continue
        pb = lib.flat(F, F.body(root))
        rh.fn(root)
        sites = [(bi, si) for bi, si, st in pb.stmts() if st.get("rv", {}).get("k") == "agg" and st["rv"].get("var") == "ListenerAddressAlreadyInUse"]
        if not rh.require(sites, "populate_listeners: no ListenerAddressAlreadyInUse site"):
            continue
        def presence(sb, truth, atom):
            if atom[0] != "call":
                return False
            nm = atom[1].rsplit("::", 1)[-1]
            fl = set()
            cs = set()
            for a_ in atom[2]["args"]:
                sl_ = guards.slice_of_operand(pb, a_)
                fl |= {f for _, f in sl_["fields"]}; cs |= sl_["callees"]
            if "known_addresses" not in fl:
                return False
            if nm == "contains_key":
                return truth is True
            if nm == "is_some":
                return truth is True
            if nm == "is_none":
                return truth is False
            return False
        edges = lib.edges_where(pb, presence)
        # `if let Some(_) = map.insert(..)` / `match map.get(..) { Some(_) => Err }`: discriminant switch on the lookup result
        for bi_, t_ in pb.calls():
            if callee_of(t_).rsplit("::", 1)[-1] in ("insert", "get", "entry", "get_mut") and isinstance(t_.get("dest"), int) and \
                    any(f == "known_addresses" for a_ in t_["args"][:1] for _, f in guards.slice_of_operand(pb, a_)["fields"]):
                import C17
                for sb, tg, el in C17.discr_switches(pb, t_["dest"]):
                    edges.append((sb, tg.get(1, el)))
        for i, (bi, si) in enumerate(sites):
            key = "%s|duplicate address#%d decided by presence" % (root, i)
            if edges and lib.guarded_by(pb, bi, edges):
                rh.ok(key, pb.where(bi, si), "behind a presence test of the address in known_addresses")
            else:
                rh.violation(key, pb.where(bi, si), "ListenerAddressAlreadyInUse is not decided by the mere presence of the address (e.g. it compares the protocol stored for it): two listeners with different protocols on one address are accepted at load time and collide when the workers bind")
    # ---------------- R-C20-e --------------------------------------------------
    re_ = chk.rule("R-C20-e", "T7", "generate_config_messages covers every collection of Config", floor=8)
    gm = CFG + "Config::generate_config_messages"
    fam = cover.reach_functions(F, gm, depth=3)
    re_.fn(*fam)
    reads, _ = cover.family_field_reads(F, gm, CFG + "Config", depth=1)
    for f in ("http_listeners", "https_listeners", "tcp_listeners", "udp_listeners", "clusters", "activate_listeners"):
        key = "Config.%s read" % f
        if f in reads:
            re_.ok(key, "", "read", nontrivial=False)
        else:
            re_.violation(key, F.body(gm).where(), "generate_config_messages never reads Config.%s" % f)
    built = cover.variants_constructed(F, fam, RT)
    for v in ("AddHttpListener", "AddHttpsListener", "AddTcpListener", "AddUdpListener", "AddCluster", "AddBackend",
              "AddHttpFrontend", "AddHttpsFrontend", "AddTcpFrontend", "AddUdpFrontend", "AddCertificate", "ActivateListener"):
        key = "constructs %s" % v
        if v in built:
            re_.ok(key, "", "constructed", nontrivial=False)
        else:
            re_.violation(key, F.body(gm).where(), "the config-to-commands path never constructs RequestType::%s" % v)


def key_template_rule(F, chk):
    """R-C20-f: ConfigState keys HTTP(S) frontends by the Display rendering of the request. Frontends that differ
    only in the kind of their path rule (prefix / regex / equals) are different routes, so the key must render each
    PathRuleKind with a different template - otherwise the loader emits both, the state rejects the second as
    'already exists' and a declared frontend is silently dropped."""
    r = chk.rule("R-C20-f", "T7", "the frontend state key renders every PathRuleKind differently", floor=3)
    PRK = "sozu_command_lib::proto::command::PathRuleKind"
    cands = [p for p in F.paths() if "core::fmt::Display for sozu_command_lib::proto::command::RequestHttpFrontend" in p and p.endswith("::fmt")]
    if not r.require(cands, "Display for RequestHttpFrontend not found"):
        return
    b = F.body(cands[0])
    r.fn(b.path)
    import C17
    arms = None
    for bi in sorted(b.reachable()):
        t = b.blocks[bi]["t"]
        if t["k"] != "switch":
            continue
        l = op_local(t["op"])
        d = b.single_def(l) if l is not None else None
        if d and d[2] == "assign" and d[3]["k"] == "discr" and d[3]["adt"] == PRK:
            arms = {int(v): tg for v, tg in t["ts"]}
    if not r.require(arms, "no switch on PathRuleKind in the key Display"):
        return
    templates = {}
    news = [x for x, t in b.calls() if callee_of(t).startswith("core::fmt::Arguments::<'a>::new")]
    for var, dv in sorted(F.variant_discr(PRK).items()):
        if dv not in arms:
            r.violation("PathRuleKind::%s" % var, b.where(), "PathRuleKind::%s has no explicit arm in the state-key rendering" % var)
            continue
        others = [x for x in news]
        first = [x for x in news if x in b.reach_from([arms[dv]], removed=[y for y in news if y != x])]
        tpl = set()
        for x in first[:1]:
            for a in b.blocks[x]["t"]["args"]:
                for c in guards.slice_of_operand(b, a)["consts"]:
                    if c and str(c).startswith("b\""):
                        tpl.add(str(c))
        templates[var] = tuple(sorted(tpl))
    seen = {}
    for var, tpl in sorted(templates.items()):
        key = "PathRuleKind::%s" % var
        if not tpl:
            r.broke("no format template found for PathRuleKind::%s" % var)
        elif tpl in seen:
            r.violation(key, b.where(), "path rules of kind %s and %s are rendered with the same key template %s: two frontends differing only in the rule kind collide in ConfigState and one of them is dropped" % (seen[tpl], var, tpl[0]))
        else:
            seen[tpl] = var
            r.ok(key, b.where(), "template %s" % tpl[0], nontrivial=False)
