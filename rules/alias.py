"""Flow-insensitive points-into ("origin") analysis on one MIR body.
origin(l) = set of (root_local, ((adt, field), ...)): the memory a pointer-ish local may point into /
a container local may hold pointers into.  Reference-typed arguments are roots for their pointee."""
from mir import pl_local, pl_proj, op_place, callee_of

PTRISH = ("&", "'", "*mut", "*const", "Box<", "Rc<", "RefMut<", "RefCell<")


def _fields(projs):
    out = []
    for e in projs:
        if e.startswith("f|"):
            _, adt, var, fld = e.split("|", 3)
            out.append((adt, fld))
    return tuple(out)


class Origins:
    def __init__(self, body):
        self.b = body
        self.o = {}
        for a in range(1, body.argc + 1):
            self.o[a] = {(a, ())}
        self._solve()

    def place_origins(self, pl):
        """origins of the memory designated by place `pl`"""
        base = pl_local(pl)
        projs = pl_proj(pl)
        if "*" in projs:
            # last deref decides: pointer stored at prefix
            i = len(projs) - 1 - projs[::-1].index("*")
            after = _fields(projs[i + 1:])
            return {(r, path + after) for (r, path) in self.o.get(base, set())}
        return {(base, _fields(projs))}

    def _ptrish(self, l):
        t = self.b.locals[l]
        return any(m in t for m in PTRISH) or "closure@" in t

    def _solve(self):
        b = self.b
        changed = True
        it = 0
        while changed and it < 50:
            changed = False
            it += 1
            for l, ds in b.defs().items():
                cur = self.o.setdefault(l, set())
                n0 = len(cur)
                for (bi, si, kind, payload) in ds:
                    if kind == "assign":
                        rv = payload
                        k = rv["k"]
                        if k in ("ref", "raw"):
                            cur |= self.place_origins(rv["pl"])
                        elif k in ("use", "cast"):
                            p = op_place(rv["a"])
                            if p is not None and self._ptrish(l):
                                cur |= self.o.get(pl_local(p), set())
                        elif k == "agg":
                            if self._ptrish(l):
                                for o in rv["ops"]:
                                    p = op_place(o)
                                    if p is not None:
                                        cur |= self.o.get(pl_local(p), set())
                    elif kind == "call":
                        t = payload
                        if self._ptrish(l):
                            for a in t["args"]:
                                p = op_place(a)
                                if p is not None:
                                    cur |= self.o.get(pl_local(p), set())
                    elif kind == "partial":
                        # writing a pointer into a field of a container local
                        s = payload
                        rv = s.get("rv") if "lhs" in s else None
                        if rv is not None and self._ptrish(l):
                            if rv["k"] in ("ref", "raw"):
                                cur |= self.place_origins(rv["pl"])
                            elif rv["k"] in ("use", "cast"):
                                p = op_place(rv["a"])
                                if p is not None:
                                    cur |= self.o.get(pl_local(p), set())
                if len(cur) != n0:
                    changed = True

    def of(self, l):
        return self.o.get(l, set())

    def operand_origins(self, op):
        p = op_place(op)
        if p is None:
            return set()
        return self.o.get(pl_local(p), set())


def field_touch(body, orig, adt, field):
    """Sites that may mutate field (adt, field): returns list of dicts
    {bb, kind: 'write'|'borrow_mut'|'call', callee?, term?}. A call is reported when one of its
    arguments carries an origin whose path goes through the field (a &mut borrow of it reached
    the callee)."""
    key = (adt, field)
    out = []
    for bi, si, s in body.stmts():
        if "lhs" in s:
            lhs = s["lhs"]
            if not isinstance(lhs, int):
                for (r, path) in orig.place_origins(lhs):
                    if key in path:
                        out.append({"bb": bi, "si": si, "kind": "write", "direct": path and path[-1] == key})
                        break
    for bi, t in body.calls():
        for ai, a in enumerate(t["args"]):
            p = op_place(a)
            if p is None:
                continue
            l = pl_local(p)
            ty = body.locals[l]
            if not ("&mut" in ty or "Mut<" in ty or "*mut" in ty or "Entry<" in ty or "Drain<" in ty):
                continue
            hit = [path for (r, path) in orig.of(l) if key in path]
            if hit:
                out.append({"bb": bi, "kind": "call", "callee": callee_of(t), "term": t, "arg": ai,
                            "direct": any(pp[-1] == key for pp in hit)})
                break
    return out
