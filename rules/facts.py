"""Fact extraction: runs the sozu-facts rustc driver over /repo's current working
tree (cargo +nightly check with RUSTC_WORKSPACE_WRAPPER) and caches the result,
keyed by a hash of every source/manifest file under /repo + driver + flags."""
import fcntl, glob, hashlib, json, os, shutil, subprocess, sys, time

VERIF = os.path.dirname(os.path.dirname(os.path.abspath(__file__)))
REPO = os.environ.get("SOZU_REPO", "/repo")
CACHE = os.path.join(VERIF, ".cache")
DRIVER_DIR = os.path.join(VERIF, "driver")
DRIVER = os.path.join(DRIVER_DIR, "target", "debug", "sozu-facts")

# configuration matrix; Q is the quick/primary one (release semantics: debug_assert bodies absent)
CONFIGS = {
    "Q": {"features": [], "debug_assertions": False},
    "D": {"features": [], "debug_assertions": True},
    "E": {"features": ["sozu-lib/e2e-hooks"], "debug_assertions": False},
    "T": {"features": ["sozu-lib/tolerant-http1-parser"], "debug_assertions": False},
    "S": {"features": ["sozu-lib/splice"], "debug_assertions": False},
    "O": {"features": ["sozu-lib/opentelemetry"], "debug_assertions": False},
}
THOROUGH = ["Q", "D", "E", "T", "S", "O"]
PKGS = ["sozu-command-lib", "sozu-lib", "sozu"]
EXPECT = {"sozu-command-lib": ["sozu_command_lib-lib"], "sozu-lib": ["sozu_lib-lib"],
          "sozu": ["sozu-lib", "sozu-bin"]}


class Broken(Exception):
    pass


def sysroot_lib():
    out = subprocess.run(["rustc", "+nightly", "--print", "sysroot"], capture_output=True, text=True)
    if out.returncode != 0:
        raise Broken("nightly toolchain not available: " + out.stderr)
    return os.path.join(out.stdout.strip(), "lib")


def ensure_driver():
    src = os.path.join(DRIVER_DIR, "src", "main.rs")
    if os.path.exists(DRIVER) and os.path.getmtime(DRIVER) >= os.path.getmtime(src):
        return
    env = dict(os.environ, CARGO_NET_OFFLINE="true")
    r = subprocess.run(["cargo", "+nightly", "build", "--offline"], cwd=DRIVER_DIR, env=env,
                       capture_output=True, text=True)
    if r.returncode != 0 or not os.path.exists(DRIVER):
        raise Broken("driver build failed:\n" + r.stderr[-3000:])


def source_key(cfg):
    h = hashlib.sha256()
    out = subprocess.run(["git", "-C", REPO, "ls-files", "-co", "--exclude-standard"],
                         capture_output=True, text=True)
    if out.returncode != 0:
        raise Broken("git ls-files failed in " + REPO)
    n = 0
    for f in sorted(out.stdout.splitlines()):
        if not (f.endswith((".rs", ".toml", ".proto", ".lock")) or f == "rust-toolchain"):
            continue
        p = os.path.join(REPO, f)
        if not os.path.isfile(p):
            continue
        h.update(f.encode() + b"\0")
        with open(p, "rb") as fh:
            h.update(hashlib.sha256(fh.read()).digest())
        n += 1
    with open(DRIVER, "rb") as fh:
        h.update(hashlib.sha256(fh.read()).digest())
    h.update(json.dumps(CONFIGS[cfg], sort_keys=True).encode())
    return h.hexdigest()[:20], n


def facts_dir(cfg="Q", verbose=True):
    """Return a directory holding fresh fact files for configuration cfg."""
    ensure_driver()
    os.makedirs(CACHE, exist_ok=True)
    lock = open(os.path.join(CACHE, "lock-" + cfg), "w")
    fcntl.flock(lock, fcntl.LOCK_EX)
    try:
        key, nfiles = source_key(cfg)
        d = os.path.join(CACHE, "facts", cfg + "-" + key)
        marker = os.path.join(d, "COMPLETE")
        if os.path.exists(marker):
            try:
                os.utime(d)          # most recently *used* entries survive the purge below
            except OSError:
                pass
            return d
        # purge older extractions of this configuration
        # (entries are keyed by a hash of the sources, so an older one is still exact for the tree it was made from;
        #  the four most recently used are kept, which makes apply-check-restore loops cheap)
        olds = sorted(glob.glob(os.path.join(CACHE, "facts", cfg + "-*")), key=os.path.getmtime)
        for old in olds[:-4]:
            shutil.rmtree(old, ignore_errors=True)
        shutil.rmtree(d, ignore_errors=True)   # an incomplete earlier attempt for this very key
        os.makedirs(d)
        conf = CONFIGS[cfg]
        tdir = os.path.join(CACHE, "target-" + cfg)
        # cargo's freshness cache would skip the wrapper: forget the workspace members
        for fp in glob.glob(os.path.join(tdir, "debug", ".fingerprint", "sozu*")):
            shutil.rmtree(fp, ignore_errors=True)
        run_id = "%s-%d" % (key, int(time.time()))
        env = dict(os.environ)
        env.update({
            "LD_LIBRARY_PATH": sysroot_lib() + ":" + env.get("LD_LIBRARY_PATH", ""),
            "RUSTFLAGS": "-Zmir-opt-level=0 -Awarnings -Cdebug-assertions=%s"
                         % ("on" if conf["debug_assertions"] else "off"),
            "RUSTC_WORKSPACE_WRAPPER": DRIVER,
            "CARGO_TARGET_DIR": tdir,
            "CARGO_NET_OFFLINE": "true",
            "SOZU_FACTS_DIR": d,
            "SOZU_FACTS_RUN": run_id,
        })
        env.pop("RUSTC_WRAPPER", None)
        pkgs = conf.get("pkgs", PKGS)
        cmd = ["cargo", "+nightly", "check", "--offline"]
        for p in pkgs:
            cmd += ["-p", p]
        if conf["features"]:
            cmd += ["--features", ",".join(conf["features"])]
        t0 = time.time()
        if verbose:
            print("[facts] extracting cfg=%s key=%s (%d source files)" % (cfg, key, nfiles),
                  file=sys.stderr)
        r = subprocess.run(cmd, cwd=REPO, env=env, capture_output=True, text=True)
        if r.returncode != 0:
            shutil.rmtree(d, ignore_errors=True)
            raise Broken("cargo check failed for cfg %s (the tree does not build):\n%s"
                         % (cfg, r.stderr[-4000:]))
        # every expected crate-target must have produced a fact file stamped with this run
        for p in pkgs:
            for stem in EXPECT[p]:
                fs = glob.glob(os.path.join(d, stem + "-*.jsonl"))
                if len(fs) != 1:
                    shutil.rmtree(d, ignore_errors=True)
                    raise Broken("expected exactly one fact file %s-*.jsonl, found %d "
                                 "(wrapper skipped by cargo?)" % (stem, len(fs)))
                with open(fs[0]) as fh:
                    head = json.loads(fh.readline())
                if head.get("run") != run_id:
                    shutil.rmtree(d, ignore_errors=True)
                    raise Broken("stale fact file " + fs[0])
        with open(marker, "w") as fh:
            json.dump({"run": run_id, "cfg": cfg, "wall_s": time.time() - t0,
                       "cmd": " ".join(cmd), "rustflags": env["RUSTFLAGS"]}, fh)
        if verbose:
            print("[facts] done in %.1fs" % (time.time() - t0), file=sys.stderr)
        return d
    finally:
        fcntl.flock(lock, fcntl.LOCK_UN)
        lock.close()


if __name__ == "__main__":
    for c in (sys.argv[1:] or ["Q"]):
        print(facts_dir(c))
