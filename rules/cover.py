"""Template T7: field / variant coverage helpers."""
from mir import op_place, pl_local, pl_proj, callee_of, proj_fields


def place_field_uses(pl):
    """[(adt, field)] for every field projection in a place"""
    return [(a, f) for (a, v, f) in proj_fields(pl)]


def body_field_reads(body, adt=None):
    """fields (adt, field) read in this body: every occurrence of the field in an operand, a borrow,
    a discriminant read, a call argument, or as a *prefix* of the assigned place (x.f.g = .. reads f)"""
    reads = set()
    roots = {}

    def note(pl, whole_lhs=False):
        if isinstance(pl, int):
            return
        fs = [(i, e) for i, e in enumerate(pl["p"]) if e.startswith("f|")]
        for n, (i, e) in enumerate(fs):
            _, a, v, f = e.split("|", 3)
            if whole_lhs and n == len(fs) - 1 and i == len(pl["p"]) - 1:
                continue   # the assigned field itself is written, not read
            if adt is None or a == adt:
                reads.add((a, f))
                roots.setdefault((a, f), set()).add(pl["l"])

    def note_op(op):
        p = op_place(op)
        if p is not None:
            note(p)

    for bi, si, s in body.stmts():
        if "lhs" in s:
            note(s["lhs"], whole_lhs=True)
            rv = s["rv"]
            k = rv["k"]
            if k in ("use", "cast", "un", "repeat"):
                note_op(rv["a"])
            elif k == "bin":
                note_op(rv["a"]); note_op(rv["b"])
            elif k in ("ref", "raw", "discr"):
                note(rv["pl"])
            elif k == "agg":
                for o in rv["ops"]:
                    note_op(o)
    for bi in body.reachable():
        t = body.blocks[bi]["t"]
        if t["k"] == "call":
            for a in t["args"]:
                note_op(a)
        elif t["k"] == "switch":
            note_op(t["op"])
    return reads, roots


def body_field_writes(body, adt=None):
    """fields (adt, field) that are the final projection of an assigned place, or mutably borrowed"""
    out = set()
    for bi, si, s in body.stmts():
        if "lhs" in s and not isinstance(s["lhs"], int):
            fs = proj_fields(s["lhs"])
            if fs and s["lhs"]["p"][-1].startswith("f|"):
                a, v, f = fs[-1]
                if adt is None or a == adt:
                    out.add((a, f))
        rv = s.get("rv")
        if rv and rv["k"] in ("ref", "raw") and rv.get("m") and not isinstance(rv["pl"], int):
            fs = proj_fields(rv["pl"])
            if fs and rv["pl"]["p"][-1].startswith("f|"):
                a, v, f = fs[-1]
                if adt is None or a == adt:
                    out.add((a, f))
    return out


def reach_functions(F, root, depth=3, prefixes=("sozu_command_lib::", "<sozu_command_lib::", "sozu_lib::", "<sozu_lib::", "sozu::", "<sozu::")):
    """root, its closures, and workspace callees up to `depth` call levels"""
    seen = []
    work = [(root, 0)]
    s = set()
    while work:
        p, d = work.pop()
        if p in s or not F.has(p):
            continue
        s.add(p)
        seen.append(p)
        b = F.body(p)
        for q in F.closures_of(p):
            work.append((q, d))
        if d < depth:
            for bi, t in b.calls():
                c = callee_of(t)
                if c.startswith(prefixes):
                    work.append((c, d + 1))
                f = t.get("fn")
                if f and f != c and f.startswith(prefixes):
                    work.append((f, d + 1))
                # functions handed over as values: `.map(ClusterConfig::generate_requests)`
                for a in t["args"]:
                    if a.get("fn", "").startswith(prefixes):
                        work.append((a["fn"], d + 1))
            for bi, si, st in b.stmts():
                rv = st.get("rv")
                if not rv:
                    continue
                for o in [rv.get("a"), rv.get("b")] + rv.get("ops", []):
                    if o and o.get("fn", "").startswith(prefixes):
                        work.append((o["fn"], d + 1))
    return seen


def family_field_reads(F, root, adt, depth=3, skip_derived=True):
    reads = set()
    fns = reach_functions(F, root, depth)
    for p in fns:
        b = F.body(p)
        r, _ = body_field_reads(b, adt)
        reads |= {f for (_, f) in r}
    return reads, fns


def whole_value_uses(body, adt_ty_suffix):
    """calls that consume/clone a whole value of the ADT (e.g. listener.clone()): returns callee names"""
    out = set()
    for bi, t in body.calls():
        for a in t["args"]:
            p = op_place(a)
            if p is None:
                continue
            ty = body.locals[pl_local(p)] if isinstance(p, int) else None
            if ty and ty.replace("&", "").replace("mut ", "").strip().endswith(adt_ty_suffix):
                out.add(callee_of(t))
    return out


def variants_constructed(F, fns, adt):
    out = {}
    for p in fns:
        b = F.body(p)
        if b.derived:
            continue
        for bi, si, s in b.stmts():
            rv = s.get("rv")
            if rv and rv["k"] == "agg" and rv.get("ak") == "adt" and rv["adt"] == adt:
                out.setdefault(rv["var"], []).append((p, bi))
    return out


def root_param(body, l):
    """the parameter a reference local ultimately stands for, following plain copies and re-borrows
    (`x = move y`, `x = &(*y)`, `x = &mut (*y)`); None if it is not rooted in a parameter.  Needed on flattened bodies,
    where a spliced-in helper reads the caller's `self` through its own copy of the argument."""
    for _ in range(12):
        if 1 <= l <= body.argc:
            return l
        d = body.single_def(l)
        if not (d and d[2] == "assign"):
            return None
        rv = d[3]
        if rv["k"] in ("use", "cast"):
            p = op_place(rv["a"])
        elif rv["k"] in ("ref", "raw"):
            p = rv["pl"]
        else:
            return None
        if p is None:
            return None
        if isinstance(p, int):
            l = p
        elif p["p"] == ["*"]:
            l = p["l"]
        else:
            return None
    return None
