"""C17 - TLS serves a loaded, covering certificate (structural clauses)."""
import alias, cover, guards, lib, t2
from mir import callee_of, op_place, op_local, pl_local, proj_fields

CR = "sozu_lib::tls::CertificateResolver"
ROUTER = "sozu_lib::protocol::mux::router::Router"


def discr_switches(b, local):
    """switch blocks on the discriminant of `local` -> [(bb, {value: target}, else)]"""
    out = []
    for bi in b.reachable():
        t = b.blocks[bi]["t"]
        if t["k"] != "switch":
            continue
        l = op_local(t["op"])
        if l is None:
            continue
        d = b.single_def(l)
        if d and d[2] == "assign" and d[3]["k"] == "discr" and pl_local(d[3]["pl"]) == local and isinstance(d[3]["pl"], int):
            out.append((bi, {int(v): tg for v, tg in t["ts"]}, t["else"]))
    return out


def run(F, chk):
    chk.explanation = (
        "Structural necessary conditions of 'TLS always serves a loaded, covering certificate' decided on MIR: (a) a "
        "certificate replacement removes the old certificate only after the new one was added successfully and only when "
        "the fingerprints differ; (b) the resolver's three indices (name trie, certificate store, name->fingerprint "
        "index) are mutated only by add_certificate/remove_certificate/the constructor, and each of the two touches all "
        "three; (c) with strict SNI binding and a server name present, a request is routed only past the edge on which "
        "its authority matched a name of the served certificate; the other edge answers SniAuthorityMismatch.")
    chk.not_decided = ("agreement of the three structures after arbitrary histories, wildcard / longest-lived selection, "
                       "the rustls handshake itself")
    # ---------------- R-C17-a -------------------------------------------------
    ra = chk.rule("R-C17-a", "T5", "replace = add first, remove only after the add succeeded and if fingerprints differ", floor=1)
    rp = F.body(CR + "::replace_certificate")
    ra.fn(rp.path)
    # "the add": add_certificate, or a private method of the resolver that (transitively) inserts into `certificates`
    # (e.g. an infallible `store_certificate` half of add_certificate that replace_certificate calls directly)
    inserters = {(b_.root if "{closure" in b_.path else b_.path) for b_, _, c_ in lib.field_mut_calls(F, CR, "certificates") if c_.endswith("::insert")}
    for _ in range(2):
        for q in list(inserters):
            for cb_, _, _ in F.call_sites(q):
                if cb_.path.startswith(CR + "::") and cb_.path not in (CR + "::replace_certificate",):
                    inserters.add(cb_.root if "{closure" in cb_.path else cb_.path)
    inserters.discard(CR + "::remove_certificate")
    adds = [(bi, t) for bi, t in rp.calls() if callee_of(t) == CR + "::add_certificate" or callee_of(t) in inserters]
    rems = [(bi, t) for bi, t in rp.calls() if callee_of(t) == CR + "::remove_certificate"]
    if ra.require(len(adds) == 1 and rems, "replace_certificate: add_certificate / remove_certificate calls not found"):
        a = t2.T2(F, rp)
        ok_targets = a.cond_target(adds[0][0], adds[0][1], "ok")
        addee = callee_of(adds[0][1])
        if F.has(addee) and not F.body(addee).locals[0].startswith("core::result::Result"):
            ok_targets = [adds[0][1]["to"]]        # an infallible add: it has succeeded once it returns
        for bi, t in rems:
            key = "%s|remove after Ok(add)" % rp.path
            cond1 = ok_targets is not None and ok_targets != [] and all(bi in rp.reach_from([x]) for x in ok_targets) and \
                lib.guarded_by(rp, bi, [(p, x) for x in ok_targets for p in rp.pred()[x]])
            # old != new: an edge of a PartialEq::eq/ne call on fingerprints, false(eq)/true(ne)
            def pred(sb, truth, atom):
                if atom[0] != "call":
                    return False
                fn = atom[2].get("fn", "")
                # the same comparison wrapped in a combinator: `parsed_old.is_ok_and(|old| *old == new)` /
                # `is_some_and(..)`: false means `not equal (or nothing to compare)`
                if callee_of(atom[2]).endswith(("::is_ok_and", "::is_some_and")):
                    for a_ in atom[2]["args"]:
                        l_ = op_local(a_)
                        d_ = rp.single_def(l_) if l_ is not None else None
                        if d_ and d_[2] == "assign" and d_[3]["k"] == "agg" and d_[3].get("ak") == "closure" and F.has(d_[3]["clo"]):
                            cb_ = F.body(d_[3]["clo"])
                            if any((tt.get("fn") or "").endswith(("PartialEq::eq",)) and "Fingerprint" in (tt.get("recv") or tt.get("full") or "")
                                   for _, tt in cb_.calls()):
                                return truth is False
                    return False
                # the comparison must be made in the decoded domain (Fingerprint values), the same domain the
                # removal key lives in; comparing hex strings distinguishes spellings of one fingerprint
                if "Fingerprint" not in (atom[2].get("recv") or atom[2].get("full") or ""):
                    return False
                if fn.endswith("PartialEq::eq"):
                    return truth is False
                if fn.endswith("PartialEq::ne"):
                    return truth is True
                return False
            ne_edges = lib.edges_where(rp, pred)
            # the idempotent short-circuit sits inside `if let Ok(old) = parse(..)`: when the old fingerprint does not
            # parse there is nothing to compare (and nothing is removed later either): accept the parse-failure edge too
            cond2 = bool(ne_edges)
            if cond2:
                reach = guards.reach_without_edges(rp, ne_edges)
                # blocks reachable without taking a != edge: remove may only be reached there if the eq test itself was skipped
                eq_blocks = {sb for sb, _ in ne_edges}
                cond2 = all(not rp.dominates(e, bi) or bi not in guards.reach_without_edges(rp, ne_edges, start=e) for e in eq_blocks)
            if cond1 and cond2:
                ra.ok(key, rp.where(bi), "dominated by the Ok edge of add_certificate and not reachable through the old==new edge")
            else:
                ra.violation(key, rp.where(bi), "remove_certificate is reachable %s" % ("before/without a successful add_certificate" if not cond1 else "without passing the `old != new` edge of a comparison between decoded Fingerprint values (an idempotent replace - possibly spelled in another hex case - would delete the certificate that was meant to stay)"))
    # ---------------- R-C17-b -------------------------------------------------
    rb = chk.rule("R-C17-b", "T4+T3", "resolver indices: closed writer set, all three touched together", floor=4)
    FIELDS = ("domains", "certificates", "name_fingerprint_idx")
    ALLOWED = {"add_certificate", "remove_certificate", "replace_certificate", "new", "default"}   # replace = add then remove
    touched = {}
    for fld in FIELDS:
        for b, bi, c in lib.field_mut_calls(F, CR, fld):
            nm = c.rsplit("::", 1)[-1]
            if nm in t2.MUTATING or nm.startswith("domain_") or nm in ("insert", "remove"):
                touched.setdefault(b.root, set()).add(fld)
    touched, folded = lib.fold_private_writers(F, touched, lambda fn: fn.startswith(CR + "::") and fn.split("::")[-1] in ALLOWED)
    for h, cs in sorted(folded.items()):
        rb.info("%s|private helper" % h, F.body(h).where(), "examined as part of %s" % cs)
    for fn, flds in sorted(touched.items()):
        rb.fn(fn)
        key = "%s|mutates %s" % (fn, ",".join(sorted(flds)))
        if not fn.startswith(CR + "::") or fn.split("::")[-1] not in ALLOWED:
            rb.violation(key, F.body(fn).where(), "%s mutates the resolver's %s outside add_certificate/remove_certificate" % (fn, sorted(flds)))
        else:
            rb.ok(key, F.body(fn).where(), "allowed writer", nontrivial=False)
    for m in ("add_certificate", "remove_certificate"):
        got = touched.get(CR + "::" + m, set())
        key = "%s touches all three" % m
        if got == set(FIELDS):
            rb.ok(key, F.body(CR + "::" + m).where(), "domains, certificates and name_fingerprint_idx are all updated")
        else:
            rb.violation(key, F.body(CR + "::" + m).where(), "%s updates only %s of the three resolver structures" % (m, sorted(got)))
    # ---------------- R-C17-d -------------------------------------------------
    # Certificate names are *patterns* (they may be `*.example.org`); the SNI trie stores them as keys and matches
    # *hostnames* against them.  The mutators must treat a name as a key (insert / remove / domain_remove on it).  Handing
    # a name to the hostname lookup (domain_lookup / lookup) to decide what to evict is a category error: a wildcard key is
    # never `found` that way, so its entry survives the removal of its certificate and SNI keeps resolving to a
    # fingerprint that no longer exists.
    rdx = chk.rule("R-C17-d", "T4", "the resolver's mutators address trie entries by key, never through the hostname lookup", floor=2)
    for m in ("add_certificate", "remove_certificate", "replace_certificate"):
        if not F.has(CR + "::" + m):
            continue
        mb = lib.flat(F, F.body(CR + "::" + m), keep=(CR + "::add_certificate", CR + "::remove_certificate"))
        rdx.fn(mb.path)
        looks = [(bi, callee_of(t)) for bi, t in mb.calls() if callee_of(t).rsplit("::", 1)[-1] in ("domain_lookup", "lookup", "lookup_mut", "domain_lookup_mut")
                 and ("trie" in callee_of(t).lower() or "TrieNode" in callee_of(t) or callee_of(t).startswith(CR))]
        key = "%s|no hostname lookup on certificate names" % (CR + "::" + m)
        if looks:
            rdx.violation(key, mb.where(looks[0][0]), "%s consults %s: certificate names are trie keys (possibly wildcard patterns), not hostnames; a `*.suffix` key is never found by a hostname lookup, so its entry is not evicted / updated" % (m, looks[0][1].split("::")[-1]))
        else:
            rdx.ok(key, mb.where(), "trie entries are addressed by key only")
    # ---------------- R-C17-e -------------------------------------------------
    # The per-name candidate list is kept sorted by expiration and the trie is pointed at one END of it - by
    # add_certificate when a certificate arrives and by remove_certificate when the served one goes away.  The two are
    # siblings: they must take the same end (`last` after an ascending sort, or `first` after a descending one), else the
    # name falls back to the shortest-lived certificate on removal.
    rex = chk.rule("R-C17-e", "T8", "add_certificate and remove_certificate pick the same end of the per-name list", floor=1)
    ends = {}
    for m in ("add_certificate", "remove_certificate"):
        if not F.has(CR + "::" + m):
            continue
        mb = lib.flat(F, F.body(CR + "::" + m))
        rex.fn(mb.path)
        picked = set()
        for bi, t in mb.calls():
            c = callee_of(t)
            nm = c.rsplit("::", 1)[-1]
            if nm in ("last", "first", "last_mut", "first_mut", "pop", "max_by_key", "min_by_key") and t["args"]:
                sl = guards.slice_of_operand(mb, t["args"][0])
                if any(f == "name_fingerprint_idx" for _, f in sl["fields"]) or any(x.endswith(("Entry", "::entry", "::get_mut", "::or_default", "OccupiedEntry::<'a, K, V, A>::get")) or "entry" in x.lower() for x in sl["callees"]):
                    picked.add({"last_mut": "last", "first_mut": "first", "pop": "last"}.get(nm, nm))
        fams = [CR + "::" + m] + [x[0] for x in mb.inl]
        for fq in fams:
            for cp in F.family(fq)[1:]:
                for _, tt in F.body(cp).calls():
                    nm2 = callee_of(tt).rsplit("::", 1)[-1]
                    if nm2 in ("last", "first", "last_mut", "first_mut") and "slice" in callee_of(tt):
                        picked.add({"last_mut": "last", "first_mut": "first"}.get(nm2, nm2))
        desc = False
        for cp in [c2 for fq in fams for c2 in F.family(fq)[1:]]:
            cb = F.body(cp)
            if any(st.get("rv", {}).get("k") == "agg" and str(st["rv"].get("adt", "")).endswith("cmp::Reverse") for _, _, st in cb.stmts()):
                desc = True
        ends[m] = (frozenset(picked), desc)
    key = "selection end agreement"
    if rex.require(len(ends) == 2 and all(e[0] for e in ends.values()), "could not find how add_certificate / remove_certificate pick the served certificate of a name: %s" % ends):
        (pa, da), (pr, dr) = ends["add_certificate"], ends["remove_certificate"]
        want_a = "first" if da else "last"
        if pa == pr and (want_a in pa or len(pa) != 1):
            rex.ok(key, F.body(CR + "::add_certificate").where(), "both take `%s` (sort %s)" % ("/".join(sorted(pa)), "descending" if da else "ascending"))
        else:
            rex.violation(key, F.body(CR + "::remove_certificate").where(), "add_certificate serves the `%s` element of the per-name list (sorted %s) but remove_certificate re-points the name at the `%s` element: after a removal the name is served by the shortest-lived remaining certificate while a longer-lived one is loaded" % ("/".join(sorted(pa)), "descending" if da else "ascending", "/".join(sorted(pr))))
    # ---------------- R-C17-c -------------------------------------------------
    rc = chk.rule("R-C17-c", "T3", "strict SNI binding: routing only past the authority-matches-certificate edge", floor=2)
    rr = [p for p in F.paths() if p.startswith(ROUTER + "::route_from_request") and "{closure" not in p]
    if rc.require(len(rr) == 1, "Router::route_from_request not found"):
        b = F.body(rr[0])
        rc.fn(b.path)
        route_calls = [bi for bi, t in b.calls() if callee_of(t).endswith("::frontend_from_request") or t.get("fn", "").endswith("::frontend_from_request")]
        filt = [(bi, t) for bi, t in b.calls() if t.get("fn") == "core::option::Option::<T>::filter"]
        # the authority-vs-certificate verdict: the Option local(s) written by the call to authority_matched_cert_name
        matched = sorted({l for l, ds in b.defs().items() for d in ds
                          if d[2] == "call" and d[3].get("fn", "").endswith("::authority_matched_cert_name")})
        if rc.require(route_calls and filt and matched, "route_from_request: frontend_from_request / Option::filter / `matched` not found"):
            sni_opt = filt[0][1]["dest"]
            sw = discr_switches(b, sni_opt)
            msw = [x for m in matched for x in discr_switches(b, m)]
            if rc.require(sw and msw, "route_from_request: discriminant switches on the SNI option / matched not found"):
                some_sni = sw[0][1].get(1, sw[0][2])
                some_matched = [(bi, tg.get(1, el)) for bi, tg, el in msw]
                reach = guards.reach_without_edges(b, some_matched, start=some_sni)
                key = "%s|route behind authority match" % b.path
                if any(x in reach for x in route_calls):
                    rc.violation(key, b.where(route_calls[0]), "with strict SNI binding and an SNI present, frontend_from_request is reachable without the authority having matched a certificate name")
                else:
                    rc.ok(key, b.where(route_calls[0]), "frontend_from_request unreachable from the Some(sni) edge unless matched==Some")
                # the None edge builds SniAuthorityMismatch
                none_t = [tg.get(0, el) for bi, tg, el in msw]
                errs = [bi for bi, si, s in b.stmts() if s.get("rv", {}).get("k") == "agg" and s["rv"].get("var") == "SniAuthorityMismatch"]
                key = "%s|mismatch answered" % b.path
                if errs and all(any(e in b.reach_from([n]) for e in errs) for n in none_t):
                    rc.ok(key, b.where(errs[0]), "the no-match edge constructs RetrieveClusterError::SniAuthorityMismatch")
                else:
                    rc.violation(key, b.where(), "the no-match edge no longer produces SniAuthorityMismatch")
            # the filter closure reads strict_sni_binding
            sl = guards.slice_of_operand(b, filt[0][1]["args"][1])
            cl = any(f == "strict_sni_binding" for (_, f) in sl["fields"]) or \
                [c for c in F.family(b.path)[1:] if any(f == "strict_sni_binding" for (_, f) in cover.body_field_reads(F.body(c))[0])]
            if cl:
                rc.ok("%s|filter on strict_sni_binding" % b.path, b.where(filt[0][0]), "SNI filter closure reads strict_sni_binding", nontrivial=False)
            else:
                rc.violation("%s|filter on strict_sni_binding" % b.path, b.where(filt[0][0]), "the SNI option is no longer filtered by strict_sni_binding")
