"""C07 - a rejected configuration command leaves no trace (validate-then-mutate)."""
import json, os
import t2, lib, guards
from mir import callee_of, op_local, op_place, pl_local
from facts import Broken

STATE = "sozu_command_lib::state::ConfigState"
ERR = "sozu_command_lib::state::StateError"
HERE = os.path.dirname(os.path.abspath(__file__))


def result_methods(F, ty_prefix, err_marker):
    out = []
    for p in sorted(F.paths()):
        if not p.startswith(ty_prefix + "::") or "{closure" in p:
            continue
        b = F.body(p)
        if b.argc < 1 or not b.locals[1].startswith("&mut " + ty_prefix):
            continue
        if not (b.locals[0].startswith("core::result::Result<") and err_marker in b.locals[0]):
            continue
        out.append(p)
    return out


def ordinal_key(events_in_fn, e):
    same = [x for x in events_in_fn if x["what"] == e["what"]]
    return same.index(e)


def err_variant(F, b, pt):
    """names of the error-enum variants that can be the payload of the failing exit `pt` (walks assignments and the
    arguments / error-mapping closures of the calls that produced the value): the content-based part of an exit's key"""
    if pt["si"] is not None:
        rv = b.blocks[pt["bb"]]["s"][pt["si"]]["rv"]
        work = [op_local(o) for o in rv.get("ops", [])]
    else:
        work = [op_local(a) for a in b.blocks[pt["bb"]]["t"]["args"]]
    seen, out = set(), set()
    n = 0
    while work and n < 200:
        l = work.pop()
        n += 1
        if l is None or l in seen:
            continue
        seen.add(l)
        for d in b.defs().get(l, []):
            if d[2] == "assign":
                rv = d[3]
                if rv["k"] == "agg" and rv.get("ak") == "adt":
                    if rv["adt"].endswith("Error") or rv["adt"].endswith("Err"):
                        out.add(rv["var"])
                        continue
                    work += [op_local(o) for o in rv["ops"]]
                elif rv["k"] == "agg" and rv.get("ak") == "closure":
                    cb = F.body(rv["clo"]) if F.has(rv["clo"]) else None
                    if cb is not None:
                        for _, _, s2 in cb.stmts():
                            r2 = s2.get("rv")
                            if r2 and r2["k"] == "agg" and r2.get("ak") == "adt" and (r2["adt"].endswith("Error") or r2["adt"].endswith("Err")):
                                out.add(r2["var"])
                elif rv["k"] in ("use", "cast"):
                    pl = op_place(rv["a"])
                    if pl is not None:
                        work.append(pl_local(pl))
                elif rv["k"] in ("ref", "raw"):
                    work.append(pl_local(rv["pl"]))
            elif d[2] == "call":
                work += [op_local(a) if op_local(a) is not None else (pl_local(op_place(a)) if op_place(a) is not None else None) for a in d[3]["args"]]
    return "+".join(sorted(out)) or "-"


def _exception_holds(F, b, pt, cond):
    """the infeasibility argument of an exit exception: on no path to the exit does a `no` call on the field follow an
    `after` call on it"""
    fld = cond["field"]
    def on_field(t):
        return any(f == fld for a in t["args"][:1] for _, f in guards.slice_of_operand(b, a)["fields"])
    def closure_calls(t, suffix):
        # `opt.map(|m| m.insert(..))`: the operation happens inside the closure handed to this call
        for a in t["args"]:
            l = op_local(a)
            d = b.single_def(l) if l is not None else None
            if d and d[2] == "assign" and d[3]["k"] == "agg" and d[3].get("ak") == "closure" and F.has(d[3]["clo"]):
                if any(callee_of(tt).endswith(suffix) for _, tt in F.body(d[3]["clo"]).calls()):
                    return True
        return False
    bad = [bi for bi, t in b.calls() if (callee_of(t).endswith(cond["no"]) and on_field(t)) or (closure_calls(t, cond["no"]) and on_field(t))]
    aft = [bi for bi, t in b.calls() if (callee_of(t).endswith(cond["after"]) and on_field(t)) or (closure_calls(t, cond["after"]) and on_field(t))]
    if not aft:
        return False
    for i in aft:
        after_i = b.reach_from(b.succ()[i])
        for x in bad:
            if x in after_i and pt["bb"] in b.reach_from(b.succ()[x]):
                return False
    return True


def run_family(F, rule, methods, census, exceptions, label, exit_exceptions={}):
    fam = set(methods)
    # summaries of the family (mutates? fails?) by fixpoint from the optimistic assumption
    summ = {}
    for _ in range(4):
        new = {}
        for p in methods:
            a = t2.T2(F, F.body(p), self_arg=1, census=census, family=fam, summaries=summ)
            new[p] = a.summary()
        if new == summ:
            break
        summ = new
    for p in methods:
        b = F.body(p)
        rule.fn(p)
        a = t2.T2(F, b, self_arg=1, census=census, family=fam, summaries=summ)
        evs, errs, bad = a.violations()
        if a.unknown:
            rule.broke("unclassified callee(s) receiving &mut self state in %s: %s" % (p, sorted({c for _, c in a.unknown})))
        # accepted idioms are (function, event) pairs
        accepted = {}
        real = []
        for e, pt in bad:
            what = e["what"].split(" [")[0]
            ek = "%s|%s" % (p, what)
            if ek in exceptions:
                accepted[ek] = exceptions[ek]
            else:
                real.append((e, pt))
        for ek, why in sorted(accepted.items()):
            rule.ok(ek, b.where(), "accepted idiom: " + why, nontrivial=True)
        if not real:
            rule.ok("%s|atomic" % p, b.where(), "%d mutation event(s), %d error exit(s), none ordered mutation->error"
                    % (len(evs), len(errs)), nontrivial=bool(evs and errs))
            continue
        # one finding per failing exit, keyed by content: (function, kind of exit, error variant carried, ordinal among
        # the FAILING exits with that same content).  Exits that precede every mutation do not take part in the
        # numbering, so adding, removing or restructuring validations ahead of the mutations leaves the keys unchanged.
        failing = []
        for e, pt in real:
            if (pt["bb"], pt["si"]) not in [(x["bb"], x["si"]) for x in failing]:
                failing.append(pt)
        failing.sort(key=lambda x: (x["bb"], x["si"] or 0))
        content = {(pt["bb"], pt["si"]): "%s|%s" % (pt["what"], err_variant(F, b, pt)) for pt in failing}
        seen = set()
        for e, pt in real:
            c = content[(pt["bb"], pt["si"])]
            same = [x for x in failing if content[(x["bb"], x["si"])] == c]
            ordn = [(x["bb"], x["si"]) for x in same].index((pt["bb"], pt["si"]))
            k = "%s|exit %s#%d" % (p, c, ordn)
            if k in seen:
                continue
            seen.add(k)
            if k in exit_exceptions:
                exc_ = exit_exceptions[k]
                why_ = exc_ if isinstance(exc_, str) else exc_.get("why", "")
                cond = None if isinstance(exc_, str) else exc_.get("holds_if")
                if cond is None or _exception_holds(F, b, pt, cond):
                    rule.ok(k, b.where(pt["bb"], pt["si"]), "accepted (infeasible exit): " + why_)
                    continue
            muts = sorted({ee["what"].split(" [")[0] for ee, pp in real if pp is pt or (pp["bb"], pp["si"]) == (pt["bb"], pt["si"])})
            rule.violation(k, b.where(pt["bb"], pt["si"]),
                           "%s can fail at this exit (%s) after %d state mutation(s) already happened: %s"
                           % (p.split("::")[-1], pt["what"], len(muts), "; ".join(muts[:6]) + (" ..." if len(muts) > 6 else "")))


def run(F, chk):
    chk.explanation = (
        "Validate-then-mutate decided on MIR for every state-changing handler: in each `&mut self -> Result` method of "
        "the master's ConfigState (and of the worker-side listener/certificate/router appliers) no path performs a "
        "mutation of state reachable from self (field write, mutating collection call, mutating closure, call of a "
        "sibling that may mutate) and afterwards reaches an error exit (Err(..) built and returned, `?`, fallible tail "
        "call). Removals whose result decides the error (remove(..) => None => Err) are attached to the edge on which "
        "they actually removed. Also: the master fans a command out only after its own state accepted it.")
    chk.not_decided = ("that an accepted command changes only the objects it names; worker proxies' socket-level side "
                       "effects (listener bind/registration) on failing paths")
    chk.assumptions += [
        "mutating-method table and pass-through table (rules/t2.py) classify std collection methods correctly; an unclassified callee receiving &mut state makes the check BROKEN",
        "ConfigState.request_counts is a request census, not configuration (excluded by design)",
    ]
    tbl = json.load(open(os.path.join(HERE, "..", "tables", "C07.json")))
    exc = tbl["exceptions"]
    xexc = tbl["exit_exceptions"]
    ra = chk.rule("R-C07-a", "T2", "master ConfigState handlers: no state mutation before an error exit", floor=28)
    methods = [p for p in result_methods(F, STATE, "StateError") if not p.endswith("::dispatch")
               and "write_" not in p.split("::")[-1]]
    n = run_family(F, ra, methods, {(STATE, "request_counts")}, exc, "master", xexc)
    chk.extra["C07_master_methods"] = [m.split("::")[-1] for m in methods]
    # dispatch must be a pure forwarder: every handler result flows to the return value
    disp = F.body(STATE + "::dispatch")
    a = t2.T2(F, disp, census={(STATE, "request_counts")}, family=set(methods))
    flows = a.flows_to_return()
    lost = [callee_of(t) for bi, t in disp.calls() if callee_of(t) in set(methods) and t.get("dest") not in flows]
    if lost:
        ra.violation("%s|forwards results" % disp.path, disp.where(), "dispatch drops the result of %s" % lost)
    else:
        ra.ok("%s|forwards results" % disp.path, disp.where(), "every handler's Result flows to dispatch's return value")
    # ---------------- R-C07-b worker-side appliers --------------------------------
    rb = chk.rule("R-C07-b", "T2", "worker-side appliers: no state mutation before an error exit", floor=8)
    targets = []
    for ty, errm in (("sozu_lib::http::HttpListener", "ListenerError"), ("sozu_lib::https::HttpsListener", "ListenerError"),
                     ("sozu_lib::tcp::TcpListener", "ListenerError"), ("sozu_lib::udp::UdpListener", "ListenerError"),
                     ("sozu_lib::tls::CertificateResolver", "CertificateResolverError"),
                     ("sozu_lib::router::Router", "RouterError")):
        ms = result_methods(F, ty, errm)
        ms = [m for m in ms if m.split("::")[-1] in ("update_config", "add_certificate", "remove_certificate",
                                                       "replace_certificate", "add_http_front", "remove_http_front",
                                                       "add_tree_rule", "remove_tree_rule", "add_pre_rule", "add_post_rule",
                                                       "remove_pre_rule", "remove_post_rule", "set_tags")]
        targets += ms
    # ... plus every fallible `&mut self` method of the worker that a command can reach: the call graph below
    # Server::notify (the four proxies' notify, their per-verb handlers, listeners, routers, answer tables, ...).
    # Not configuration: the metrics drain, and the stop verbs (they tear the proxy down; a partial stop is reported by
    # R-C08-a / finding F12, and `leaves the configuration as it was` does not apply to a stopping worker).
    roots = [q for q in F.paths() if q == "sozu_lib::server::Server::notify" or
             (q.endswith("::notify") and ("ProxyConfiguration>" in q or q.startswith("sozu_lib::udp::UdpProxy")))]
    rb.require(len(roots) >= 5, "worker dispatch roots not found: %s" % roots)
    seen, work = set(roots), list(roots)
    while work:
        q = work.pop()
        for fq in F.family(q):
            for _, t in F.body(fq).calls():
                for c in (t.get("res"), t.get("fn")):
                    if c and c not in seen and F.has(c) and c.startswith(("sozu_lib::", "<sozu_lib::")):
                        seen.add(c)
                        work.append(c)
    # backend_from_*: backend *selection* (traffic path, reached through the UDP session's generic output pump); what it
    # mutates is the load-balancing cursor, not configuration.
    NOT_CONFIG = ("::metrics::", "::soft_stop", "::hard_stop", "BackendMap::backend_from_")
    for q in sorted(seen):
        if "{closure" in q or any(x in q for x in NOT_CONFIG) or q in targets:
            continue
        qb = F.body(q)
        if qb.derived or qb.argc < 1 or not qb.locals[1].startswith("&mut ") or not qb.locals[0].startswith("core::result::Result<"):
            continue
        targets.append(q)
    rb.require(len(targets) >= 30, "only %d worker-side appliers found" % len(targets))
    run_family(F, rb, targets, set(), exc, "worker", xexc)
    chk.extra["C07_worker_methods"] = targets
    # ---------------- R-C07-c fan-out only after the master accepted ---------------
    rc = chk.rule("R-C07-c", "T5", "worker_request scatters only on the Ok edge of state.dispatch", floor=1)
    wr = F.body("sozu::command::requests::worker_request")
    rc.fn(wr.path)
    disp_calls = [bi for bi, t in wr.calls() if callee_of(t) == STATE + "::dispatch"]
    scat = [bi for bi, t in wr.calls() if callee_of(t) == "sozu::command::server::Server::scatter"]
    if rc.require(len(disp_calls) == 1 and scat, "worker_request: dispatch/scatter call not found"):
        d = disp_calls[0]
        t = wr.blocks[d]["t"]
        # edges where the discriminant of dispatch's result is Err (1)
        err_edges = []
        for bi in wr.reachable():
            tt = wr.blocks[bi]["t"]
            if tt["k"] != "switch":
                continue
            l = tt["op"].get("mv", tt["op"].get("cp"))
            if not isinstance(l, int):
                continue
            dd = wr.single_def(l)
            if dd and dd[2] == "assign" and dd[3]["k"] == "discr":
                sl = wr.slice_back([l])
                if t.get("dest") in sl["locals"] or STATE + "::dispatch" in sl["callees"]:
                    for v, tg in tt["ts"]:
                        if int(v) == 1:
                            err_edges.append((bi, tg))
                    if not any(int(v) == 1 for v, _ in tt["ts"]) and any(int(v) == 0 for v, _ in tt["ts"]):
                        err_edges.append((bi, tt["else"]))
        ok_all = True
        for sb in scat:
            if not wr.dominates(d, sb):
                ok_all = False
            # scatter must not be reachable from the Err edge
            for (_, tg) in err_edges:
                if sb in wr.reach_from([tg]):
                    ok_all = False
        if err_edges and ok_all:
            rc.ok("%s|scatter after Ok(dispatch)" % wr.path, wr.where(scat[0]), "scatter dominated by dispatch and unreachable from its Err edge %s" % err_edges)
        else:
            rc.violation("%s|scatter after Ok(dispatch)" % wr.path, wr.where(scat[0]), "Server::scatter is reachable although state.dispatch rejected the command")
