"""C03 - no request smuggling (structural clauses)."""
import alias, bounds, cover, guards, lib
from mir import callee_of, op_place, op_local, op_const, pl_local, proj_fields
import C17
from C12 import call_atom_edges

MUX = "sozu_lib::protocol::mux::"
PK = MUX + "pkawa::"
CLASSIFY = PK + "classify_invalid_h2_header"
DECODE = "loona_hpack::decoder::Decoder::<'a>::decode_with_cb"
SDA = MUX + "answers::set_default_answer"


def closure_arg(b, t):
    for a in t["args"]:
        l = op_local(a)
        if l is None:
            continue
        for d in b.defs().get(l, []):
            if d[2] == "assign" and d[3]["k"] == "agg" and d[3].get("ak") == "closure":
                return d[3]["clo"]
    return None


def run(F, chk):
    chk.explanation = (
        "Structural necessary conditions of request-boundary agreement decided on MIR: (a) every closure handed to the "
        "HPACK decoder materialises a header (invokes the per-header sink, writes name/value into storage, stores a "
        "pseudo-header) only past the `valid` edge of classify_invalid_h2_header; (b) the header sinks are called from "
        "nowhere else; (c) handle_header / handle_trailer return Ok only past the `no invalid header seen` edge; (d) an "
        "HTTP/1 request that failed to parse is never linked to a backend: from the parse-error edge on the server side no "
        "path reaches pending_links or the peer's writer, and every path answers 400; (e) connection-specific headers "
        "never cross into HTTP/2: generic header emission is behind is_connection_specific_header()==false.")
    chk.not_decided = ("equivalence of sozu's reading with an RFC-conforming backend's reading over the whole input language "
                       "(the H1 grammar lives in the external kawa crate); content-length vs DATA accounting")
    # ---------------- R-C03-a ----------------------------------------------------
    ra = chk.rule("R-C03-a", "T5", "HPACK chokepoint: nothing is materialised before classify_invalid_h2_header said valid", floor=4)
    sites = [x for x in F.call_sites(DECODE) if x[0].path.startswith(MUX)]   # the health-check probe decoder forwards nothing
    ra.require(len(sites) >= 2, "fewer than 2 decode_with_cb call sites in sozu_lib")
    SINKS = ("::call_mut", "::call_once", "::write_all", PK + "write_regular_header", PK + "store_pseudo_header",
             "::push_block", "::push_back")
    chok_closures = set()
    for b, bi, t in sites:
        clo = closure_arg(b, t)
        if not ra.require(clo and F.has(clo), "%s: closure passed to decode_with_cb not resolved" % b.path):
            continue
        chok_closures.add(clo)
        cb = F.body(clo)
        ra.fn(clo)
        cls = [(x, tt) for x, tt in cb.calls() if callee_of(tt) == CLASSIFY]
        if not cls:
            ra.violation("%s|classify" % clo, cb.where(), "the closure decoding HPACK fields no longer calls classify_invalid_h2_header")
            continue
        valid_edges = []
        for x, tt in cls:
            for sb, tg, el in C17.discr_switches(cb, tt["dest"]):
                valid_edges.append((sb, tg.get(0, el)))
        k = 0
        for x, tt in cb.calls():
            c = callee_of(tt)
            if not any(c.endswith(s) or c == s for s in SINKS):
                continue
            if c.endswith("::push_back") and not any(f in ("jar", "blocks") for _, f in guards.slice_of_operand(cb, tt["args"][0])["fields"]):
                continue
            key = "%s|sink %s#%d" % (clo, c.split("::")[-1], k)
            k += 1
            if valid_edges and lib.guarded_by(cb, x, valid_edges):
                ra.ok(key, cb.where(x), "dominated by the `valid` edge of classify_invalid_h2_header")
            else:
                ra.violation(key, cb.where(x), "a decoded header field reaches %s without having passed classify_invalid_h2_header: CR/LF/NUL, uppercase names or connection-specific fields could be forwarded" % c.split("::")[-1])
    # ---------------- R-C03-b ----------------------------------------------------
    rb = chk.rule("R-C03-b", "T4", "the header sinks have no caller outside the chokepoint", floor=2)
    hh_family = set()
    for root in (PK + "handle_header", PK + "handle_trailer", PK + "decode_headers_with_budget"):
        for p in F.paths():
            if p == root or p.startswith(root + "::"):
                hh_family.add(p)
    for sink in (PK + "write_regular_header", PK + "store_pseudo_header"):
        callers = sorted({b.path for b, bi, t in F.call_sites(sink)})
        bad = [c for c in callers if c not in hh_family]
        key = "%s callers" % sink.split("::")[-1]
        rb.fn(*callers)
        if not callers:
            rb.broke("no caller of %s found" % sink)
        elif bad:
            rb.violation(key, "", "%s is called outside the HPACK chokepoint closures: %s" % (sink.split("::")[-1], bad))
        else:
            rb.ok(key, "", "%d caller(s), all closures of handle_header/handle_trailer" % len(callers), nontrivial=False)
    # ---------------- R-C03-c ----------------------------------------------------
    rc = chk.rule("R-C03-c", "T5", "Ok only past the `no invalid header` edge", floor=2)
    for fn, flagsrc in ((PK + "handle_header", PK + "decode_headers_with_budget"), (PK + "handle_trailer", None)):
        cands = [p for p in F.paths() if (p == fn or p.startswith(fn + "::<")) and "{closure" not in p]
        if not rc.require(cands, "%s not found" % fn):
            continue
        b = F.body(cands[0])
        rc.fn(b.path)
        oks = [(bi, si) for bi, si, s in b.stmts() if s.get("lhs") == 0 and s.get("rv", {}).get("k") == "agg" and
               s["rv"].get("adt") == "core::result::Result" and s["rv"].get("var") == "Ok"]
        if flagsrc:
            def pred(sb, truth, atom):
                if truth is not False:
                    return False
                l = None
                if atom[0] == "place":
                    l = pl_local(atom[1])
                elif atom[0] == "multi":
                    l = atom[1]
                if l is None:
                    return False
                return any(c.startswith(flagsrc) for c in b.slice_back([l])["callees"])
        else:
            # the `invalid field seen` flag, identified by what sets it: the local the decode closure sets to true on
            # the Some edge of classify_invalid_h2_header (no dependence on its name)
            flags = lib.flags_set_after_call(F, b, "::classify_invalid_h2_header")
            if not rc.require(flags, "%s: no flag set after classify_invalid_h2_header found" % b.path):
                continue
            def pred(sb, truth, atom):
                if truth is not False:
                    return False
                l = pl_local(atom[1]) if atom[0] == "place" else (atom[1] if atom[0] == "multi" else None)
                return l is not None and bool(b.slice_back([l])["locals"] & flags)
        edges = lib.edges_where(b, pred)
        key = "%s|Ok behind !invalid" % b.path
        if not oks:
            rc.broke("%s: no Ok(..) return found" % b.path)
        elif edges and all(lib.guarded_by(b, bi, edges) for bi, _ in oks):
            rc.ok(key, b.where(oks[0][0]), "every Ok return is dominated by a false edge of the invalid-header flag")
        else:
            rc.violation(key, b.where(oks[0][0]), "%s can return Ok although an invalid header field was seen" % fn.split("::")[-1])
    content_length_rule(F, chk)
    colon_name_rule(F, chk)
    chunk_length_rule(F, chk)
    # ---------------- R-C03-d ----------------------------------------------------
    rd = chk.rule("R-C03-d", "T3", "an unparsable HTTP/1 request is answered 400 and never linked to a backend", floor=1)
    rdb = [p for p in F.paths() if p.startswith(MUX + "h1::ConnectionH1") and p.endswith("::readable") and "{closure" not in p]
    if rd.require(rdb, "ConnectionH1::readable not found"):
        b = F.body(rdb[0])
        rd.fn(b.path)
        err_edges = lib.edges_where(b, lambda sb, truth, atom: atom[0] == "call" and atom[1].endswith("Kawa::<T>::is_error") and truth is True)
        if rd.require(err_edges, "ConnectionH1::readable: no branch on kawa.is_error()"):
            POS = MUX + "connection::Position"
            starts = []
            for sb, tgt in err_edges:
                region = b.reach_from([tgt])
                for x in region:
                    t = b.blocks[x]["t"]
                    if t["k"] != "switch":
                        continue
                    l = op_local(t["op"])
                    d = b.single_def(l) if l is not None else None
                    if d and d[2] == "assign" and d[3]["k"] == "discr" and d[3]["adt"].endswith("::Position"):
                        dv = F.variant_discr(d[3]["adt"])["Server"]
                        tg = [y for v, y in t["ts"] if int(v) == dv] or [t["else"]]
                        starts.append(tg[0])
            if rd.require(starts, "ConnectionH1::readable: no Position switch under the parse-error edge"):
                reach = b.reach_from(starts)
                link = [x for x, t in b.calls() if x in reach and ((callee_of(t).endswith("VecDeque::<T, A>::push_back") and
                        any(f == "pending_links" for _, f in guards.slice_of_operand(b, t["args"][0])["fields"])) or
                        t.get("fn", "").endswith("Endpoint::readiness_mut") or t.get("fn", "").endswith("Endpoint::end_stream"))]
                answers = [x for x, t in b.calls() if callee_of(t) == SDA and op_const(t["args"][2]) == 400]
                cut = b.reach_from(starts, removed=answers)
                esc = [r for r in b.returns() if r in cut]
                key = "%s|parse error => 400, no link" % b.path
                if link:
                    rd.violation(key, b.where(link[0]), "after a request parse error on the server side a path reaches pending_links / the backend's writer: the malformed request would be forwarded")
                elif esc or not answers:
                    rd.violation(key, b.where(starts[0]), "after a request parse error a path returns without installing the 400 answer")
                else:
                    rd.ok(key, b.where(starts[0]), "all paths from the parse-error edge install a 400 answer; none links the stream")
    # ---------------- R-C03-e ----------------------------------------------------
    re_ = chk.rule("R-C03-e", "T5", "connection-specific headers never cross into HTTP/2", floor=1)
    CONV = MUX + "converter::H2BlockConverter"
    call = [p for p in F.paths() if p.startswith("<" + CONV) and p.endswith("::call") and "{closure" not in p]
    if re_.require(len(call) == 1, "H2BlockConverter::call not found"):
        b = F.body(call[0])
        re_.fn(b.path)
        emits = []
        for x, t in b.calls():
            if callee_of(t).endswith("::encode_header_into"):
                sl = set()
                for a in t["args"]:
                    sl |= guards.slice_of_operand(b, a)["fields"]
                if any(f == "lowercase_buf" for _, f in sl):
                    emits.append(x)
        edges = call_atom_edges(b, "pkawa::is_connection_specific_header", False)
        def skip_pred(sb, truth, atom):
            if truth is not False or atom[0] not in ("multi", "place"):
                return False
            l = atom[1] if atom[0] == "multi" else pl_local(atom[1])
            return any(c.endswith("pkawa::is_connection_specific_header") for c in b.slice_back([l])["callees"])
        edges += lib.edges_where(b, skip_pred)
        if re_.require(emits, "H2BlockConverter::call: generic header emission (lowercase_buf) not found"):
            key = "%s|generic header emission" % b.path
            if edges and all(lib.guarded_by(b, x, edges) for x in emits):
                re_.ok(key, b.where(emits[0]), "emission dominated by is_connection_specific_header()==false %s" % edges)
            else:
                re_.violation(key, b.where(emits[0]), "a regular header can be HPACK-encoded without having passed is_connection_specific_header()==false: Connection/Keep-Alive/Transfer-Encoding/Upgrade could cross into HTTP/2")


def content_length_rule(F, chk):
    """R-C03-f: an H2 content-length field is accepted only after set_content_length recorded its value: from the
    `name is content-length` edge of write_regular_header no path reaches the Ok return without set_content_length
    (a value that does not parse - e.g. overflows usize - must be rejected, not forwarded with framing recomputed)."""
    r = chk.rule("R-C03-f", "T3", "content-length accepted only through set_content_length", floor=1)
    b = F.body(PK + "write_regular_header")
    r.fn(b.path)
    starts = []
    for bi, t in b.calls():
        if not callee_of(t).endswith("compare_no_case"):
            continue
        consts = set()
        for a in t["args"]:
            consts |= {str(c) for c in guards.slice_of_operand(b, a)["consts"]}
        if any("content-length" in c for c in consts):
            for sb, f, tt, atom in guards.bool_switches(b):
                if atom[0] == "call" and atom[2] is t:
                    starts.append(tt)
    if not r.require(starts, "write_regular_header: no comparison of the field name with content-length found"):
        return
    scl = [bi for bi, t in b.calls() if callee_of(t) == PK + "set_content_length"]
    oks = [bi for bi, si, s in b.stmts() if s.get("lhs") == 0 and s.get("rv", {}).get("k") == "agg" and
           s["rv"].get("adt") == "core::result::Result" and s["rv"].get("var") == "Ok"]
    cut = b.reach_from(starts, removed=scl)
    key = "%s|content-length => set_content_length" % b.path
    if scl and not [x for x in oks if x in cut]:
        r.ok(key, b.where(starts[0]), "every accepting path for a content-length field passes set_content_length")
    else:
        r.violation(key, b.where(starts[0]), "a content-length field can be accepted (Ok) without set_content_length having recorded it: an unparsable / overflowing value is forwarded while the body framing is recomputed (CL.TE / CL.CL)")


def colon_name_rule(F, chk):
    """R-C03-g: classify_invalid_h2_header does not validate the bytes of a name that starts with ':' (pseudo-header
    names are matched exactly by its callers).  That is a contract: every per-field closure that forwards a field NAME
    (write_regular_header(kawa, k, v), or storage.write_all(k)) must do so only on the false edge of a `starts_with(b":")`
    test of that name - otherwise `:x\r\nGET /admin ...` style names reach the HTTP/1 serializer unvalidated."""
    r = chk.rule("R-C03-g", "T5", "a field name starting with ':' never reaches a name-forwarding sink", floor=3)
    cl = F.body(CLASSIFY)
    # the contract exists only while classify skips ':' names; detect the skip: a comparison of name[0] with b':' (0x3a)
    skip = False
    for bi, si, s2 in cl.stmts():
        rv = s2.get("rv")
        if rv and rv["k"] == "bin" and rv["op"] in ("Eq", "Ne"):
            for o in (rv["a"], rv["b"]):
                if op_const(o) == 0x3a:
                    skip = True
    if not skip:
        r.ok("classify validates ':' names itself", cl.where(), "no `name[0] != b':'` exemption in classify_invalid_h2_header", nontrivial=False)
    n = 0
    for root in (PK + "handle_header", PK + "handle_trailer"):
        for fp in F.paths():
            if not (fp.startswith(root + "::") and "{closure" in fp):
                continue
            cb = F.body(fp)
            if cb.argc < 2:
                continue
            sinks = []
            for x, tt in cb.calls():
                c = callee_of(tt)
                if c == PK + "write_regular_header":
                    sinks.append((x, c))
                elif c.endswith("::write_all") and any(2 in guards.slice_of_operand(cb, a)["locals"] for a in tt["args"][1:]):
                    sinks.append((x, c))
            if not sinks:
                continue
            r.fn(fp)
            def pred(sb, truth, atom):
                if atom[0] != "call" or not atom[1].endswith("::starts_with") or truth is not False:
                    return False
                args = atom[2]["args"]
                hay = guards.slice_of_operand(cb, args[0])
                ndl = guards.slice_of_operand(cb, args[1])
                return 2 in hay["locals"] and any('b":"' in str(c) for c in ndl["consts"])
            edges = lib.edges_where(cb, pred)
            for i, (x, c) in enumerate(sinks):
                n += 1
                key = "%s|name sink %s#%d" % (fp, c.split("::")[-1], i)
                if not skip:
                    r.ok(key, cb.where(x), "classify validates every name", nontrivial=False)
                elif edges and lib.guarded_by(cb, x, edges):
                    r.ok(key, cb.where(x), "only on the false edge of name.starts_with(b\":\")")
                else:
                    r.violation(key, cb.where(x), "a field whose name starts with ':' can reach %s: classify_invalid_h2_header exempts such names from byte validation, so CR/LF in the name is forwarded to the HTTP/1 side" % c.split("::")[-1])


def chunk_length_rule(F, chk):
    """R-C03-h: when an HTTP/2 body is re-framed as chunked for an HTTP/1 backend, the size line announces exactly the
    bytes of the chunk that follows: the value rendered into the ChunkHeader is the length (`.len()`) of the very slice
    that is pushed as the Chunk's data.  Any other quantity (the wire length including padding, a running total) makes
    the backend read a different chunk boundary than the proxy: the bytes in between are a smuggled request."""
    r = chk.rule("R-C03-h", "T12", "the rendered chunk size is the length of the chunk's own data", floor=1)
    n = 0
    for b in F.grep('"var":"ChunkHeader"'):
        if not b.path.startswith(MUX) or b.derived:
            continue
        for bi, si, st in b.stmts():
            rv = st.get("rv")
            if not (rv and rv["k"] == "agg" and rv.get("ak") == "adt" and rv["adt"].endswith("::Block") and rv["var"] == "ChunkHeader"):
                continue
            rend = lib.rendered_values(b, rv["ops"][0])
            if not rend:
                continue          # copied from a template, not rendered from a number
            n += 1
            r.fn(b.path)
            # the data of the Chunk block(s) built in this function
            chunk_data = set()
            for bj, sj, s2 in b.stmts():
                r2 = s2.get("rv")
                if r2 and r2["k"] == "agg" and r2.get("ak") == "adt" and r2["adt"].endswith("::Block") and r2["var"] == "Chunk":
                    chunk_data |= {lib.value_root(b, l) for l in guards.slice_of_operand(b, r2["ops"][0])["locals"]}
            ok = False
            why = "rendered value is not the result of a len() call"
            for R in rend:
                d = b.single_def(R)
                if d and d[2] == "call" and callee_of(d[3]).endswith("::len") and d[3]["args"]:
                    src = lib.value_root(b, op_local(d[3]["args"][0]))
                    if src in chunk_data:
                        ok = True
                    else:
                        why = "the length rendered belongs to another value than the slice pushed as the chunk"
            key = "%s|ChunkHeader#%d size == len(chunk data)" % (b.path, n)
            if ok:
                r.ok(key, b.where(bi, si), "size rendered from len() of the slice moved into Block::Chunk")
            else:
                r.violation(key, b.where(bi, si), "the chunk-size line is not rendered from the length of the chunk's own data (%s): an HTTP/1 backend reads a different chunk boundary than sozu forwarded, and the bytes in between are parsed as a new request" % why)
    r.require(n >= 1, "no ChunkHeader rendered from a number found in the mux")
