"""Path engine (template T1 and friends): explores the product  CFG x event-count vector x
finite valuation of live locals, interprocedurally through memoised summaries
  summary(fn, V) = { (count_vector, abstract_return_value) }.
Variant sensitivity: discriminant reads of a designated enum (rooted in a parameter: assumption
A1, checked) evaluate to the variant V under analysis.  Values tracked: integer/bool constants,
Option shape (None / Some(inner)), fieldless enum variants, small structs of tracked values,
references to locals, closure identities and rule-defined atoms (e.g. terminal/processing)."""
from collections import defaultdict
from mir import (op_place, op_local, op_const, pl_local, pl_proj, callee_of, Body)
import alias

CAP = 2
OPT = ("core::option::Option", "std::option::Option")
UNK = None


class Explosion(Exception):
    pass


def vec_add(a, b):
    return tuple(min(CAP, x + y) for x, y in zip(a, b))


def _nested_refs(v, depth=0):
    out = []
    if isinstance(v, tuple) and depth < 4:
        if v and v[0] == "closure":
            for x in v[2]:
                if isinstance(x, tuple) and x and x[0] == "ref" and isinstance(x[1], int):
                    out.append(x[1])
                out += _nested_refs(x, depth + 1)
        elif v and v[0] in ("opt", "struct"):
            for x in v[1:]:
                out += _nested_refs(x, depth + 1)
    return out


class Liveness:
    def __init__(self, body):
        n = len(body.blocks)
        self.addr_taken = set()
        use = [set() for _ in range(n)]
        deff = [set() for _ in range(n)]

        def u(bi, l):
            if l not in deff[bi]:
                use[bi].add(l)

        def u_place(bi, pl):
            u(bi, pl_local(pl))
            for e in pl_proj(pl):
                if e.startswith("i|"):
                    u(bi, int(e[2:]))

        def u_op(bi, op):
            p = op_place(op)
            if p is not None:
                u_place(bi, p)

        for bi, b in enumerate(body.blocks):
            for s in b["s"]:
                if "lhs" in s:
                    rv = s["rv"]
                    k = rv["k"]
                    if k in ("use", "cast", "un", "repeat"):
                        u_op(bi, rv["a"])
                    elif k == "bin":
                        u_op(bi, rv["a"]); u_op(bi, rv["b"])
                    elif k in ("ref", "raw"):
                        u_place(bi, rv["pl"])
                        if isinstance(rv["pl"], int) or "*" not in pl_proj(rv["pl"]):
                            self.addr_taken.add(pl_local(rv["pl"]))
                    elif k == "discr":
                        u_place(bi, rv["pl"])
                    elif k == "agg":
                        for o in rv["ops"]:
                            u_op(bi, o)
                    lhs = s["lhs"]
                    if isinstance(lhs, int):
                        deff[bi].add(lhs)
                    else:
                        u_place(bi, lhs)
                elif "setd" in s:
                    u_place(bi, s["setd"])
            t = b["t"]
            k = t["k"]
            if k == "call":
                if "fnptr" in t:
                    u_op(bi, t["fnptr"])
                for a in t["args"]:
                    u_op(bi, a)
                if "dest" in t:
                    if isinstance(t["dest"], int):
                        deff[bi].add(t["dest"])
                    else:
                        u_place(bi, t["dest"])
            elif k == "switch":
                u_op(bi, t["op"])
            elif k == "drop":
                u_place(bi, t["pl"])
            elif k == "assert":
                u_op(bi, t["cond"])
            elif k == "ret":
                u(bi, 0)
        sc = body.succ()
        live_in = [set() for _ in range(n)]
        changed = True
        while changed:
            changed = False
            for bi in range(n - 1, -1, -1):
                out = set()
                for y in sc[bi]:
                    out |= live_in[y]
                new = use[bi] | (out - deff[bi])
                if new != live_in[bi]:
                    live_in[bi] = new
                    changed = True
        self.live_in = live_in


def is_drop_flag_switch(body, bi):
    """switch(flag) -> [0: A, else: B] where B is an empty block dropping something and going to A"""
    t = body.blocks[bi]["t"]
    if t["k"] != "switch" or len(t["ts"]) != 1:
        return False
    a, b = t["ts"][0][1], t["else"]
    for x, y in ((a, b), (b, a)):
        blk = body.blocks[y]
        if not blk["s"] and blk["t"]["k"] == "drop" and blk["t"]["to"] == x:
            return True
        if not blk["s"] and blk["t"]["k"] == "goto" and blk["t"]["to"] == x:
            return True
    return False


class Spec:
    """Rule-specific hooks. Subclass and override."""
    nvec = 1
    enum = None            # ADT path of the variant-sensitive enum
    enum_param_markers = ()  # substrings of parameter types that carry the enum value (A1)
    state_limit = 400000

    def zero(self):
        return tuple([0] * self.nvec)

    def add(self, acc, delta):
        """accumulate a delta into a path accumulator (default: capped vector addition)"""
        return tuple(min(CAP, x + y) for x, y in zip(acc, delta))

    def event(self, eng, body, bi, term, argvals, val):
        """return list of alternative (count-vector delta, return value) for this call, or None if the
        call is not an event"""
        return None

    def builtin_summary(self, eng, body, bi, callee, term, argvals, val):
        """return set of (vec, retval) for known leaf functions, or None"""
        return None

    def descend(self, eng, callee):
        """True if the callee's body should be summarised (must exist in facts)"""
        return False

    def closure_multiplicity(self, callee):
        return None

    def view(self, eng, body):
        """the form of `body` that is explored (a spec may splice private helpers in, see inline.py)"""
        return body


ONCE = ("std::thread::local::LocalKey::<T>::with", "std::thread::local::LocalKey::<T>::try_with")
_O = "core::option::Option::<T>::"
_R = "core::result::Result::<T, E>::"
AT_MOST_ONCE = tuple([_O + m for m in ("map", "and_then", "unwrap_or_else", "ok_or_else", "is_some_and", "is_none_or",
                                        "map_or", "map_or_else", "or_else", "filter", "inspect",
                                        "get_or_insert_with", "take_if", "then")] +
                     [_R + m for m in ("map", "map_err", "and_then", "unwrap_or_else", "or_else", "inspect_err",
                                       "inspect", "is_ok_and", "is_err_and", "map_or_else", "map_or")] +
                     ["std::collections::hash::map::Entry::<'a, K, V, A>::or_insert_with",
                      "std::collections::hash::map::Entry::<'a, K, V, A>::and_modify",
                      "alloc::collections::btree::map::entry::Entry::<'a, K, V, A>::or_insert_with",
                      "alloc::collections::btree::map::entry::Entry::<'a, K, V, A>::and_modify",
                      "core::bool::<impl bool>::then"])


class Engine:
    def __init__(self, F, spec):
        self.F = F
        self.spec = spec
        self.memo = {}
        self.inprogress = set()
        self.zero = spec.zero()
        self.notes = []           # diagnostics (unknown statuses, A1 failures, ...)
        self.functions = set()
        self.states = 0
        self.nontrivial = set()
        self._live = {}
        self._orig = {}
        if spec.enum:
            self.discr = F.variant_discr(spec.enum)

    def live(self, body):
        lv = self._live.get(body.path)
        if lv is None:
            lv = self._live[body.path] = Liveness(body)
        return lv

    def mut_borrowed(self, body):
        mb = getattr(body, "_mutb", None)
        if mb is None:
            mb = set()
            for blk in body.blocks:
                for st in blk["s"]:
                    rv = st.get("rv")
                    if rv and rv["k"] in ("ref", "raw") and rv.get("m"):
                        pl = rv["pl"]
                        if isinstance(pl, int) or "*" not in pl["p"]:
                            mb.add(pl_local(pl))
            try:
                body._mutb = mb
            except AttributeError:
                self._mutb_cache = getattr(self, "_mutb_cache", {})
                self._mutb_cache[body.path] = mb
        return mb

    def origins(self, body):
        o = self._orig.get(body.path)
        if o is None:
            o = self._orig[body.path] = alias.Origins(body)
        return o

    # ---- abstract evaluation ------------------------------------------
    def eval_place(self, body, val, pl):
        if isinstance(pl, int):
            v = val.get(pl)
            if isinstance(v, tuple) and v[0] == "eq":
                w = val.get(v[1])
                return w if isinstance(w, int) else v
            return v
        v = val.get(pl["l"])
        for e in pl["p"]:
            if v is None:
                return None
            if e == "*":
                if isinstance(v, tuple) and v[0] == "ref":
                    v = val.get(v[1]) if isinstance(v[1], int) else None
                else:
                    return None
            elif e.startswith("d|"):
                continue  # downcast: keep value, field projection follows
            elif e.startswith("f|"):
                _, adt, var, fld = e.split("|", 3)
                if isinstance(v, tuple) and v[0] == "opt" and adt in OPT:
                    v = v[1] if v[1] != "?" else None
                    if v is None:
                        return None
                elif isinstance(v, tuple) and v[0] == "struct":
                    v = dict(v[1]).get(fld)
                else:
                    return None
            else:
                return None
        return v

    def eval_op(self, body, val, op):
        p = op_place(op)
        if p is None:
            c = op_const(op)
            if c is not None:
                return c
            return None
        return self.eval_place(body, val, p)

    def eval_rvalue(self, body, val, rv, V):
        k = rv["k"]
        if k == "use":
            v = self.eval_op(body, val, rv["a"])
            if v is None:
                # a copy of a bool whose value is not known yet: remember the equality, so that learning either
                # side on a later branch teaches the other (`let failed = a || flag; .. if flag {..} .. if failed {..}`)
                p = op_place(rv["a"])
                if isinstance(p, int) and body.locals[p] == "bool" and self._stable(body, p):
                    return ("eq", p)
            return v
        if k == "cast":
            v = self.eval_op(body, val, rv["a"])
            return v if isinstance(v, int) else (v if rv.get("ck") in ("PointerCoercion", "Transmute", "PtrToPtr") else None)
        if k in ("ref", "raw"):
            pl = rv["pl"]
            if isinstance(pl, int):
                return ("ref", pl)
            if pl["p"] == ["*"]:
                return val.get(pl["l"])
            return None
        if k == "agg":
            ak = rv["ak"]
            if ak == "closure":
                return ("closure", rv["clo"], tuple(self.eval_op(body, val, o) for o in rv["ops"]))
            if ak == "adt":
                if rv["adt"] in OPT:
                    if rv["var"] == "None":
                        return ("opt", None)
                    inner = self.eval_op(body, val, rv["ops"][0])
                    return ("opt", inner if inner is not None else "?")
                if not rv["ops"]:
                    return ("var", rv["adt"], rv["var"])
                if rv["adt"] == "core::ops::range::Range" and len(rv["ops"]) == 2:
                    a, b = self.eval_op(body, val, rv["ops"][0]), self.eval_op(body, val, rv["ops"][1])
                    if isinstance(a, int) and isinstance(b, int):
                        return ("range", a, b)
                    return None
                if rv["var"] != rv["adt"].split("::")[-1]:
                    return ("disc", rv["vi"])
                if len(rv["ops"]) <= 8 and rv["var"] == rv["adt"].split("::")[-1]:
                    fs = []
                    for n, o in zip(rv["fn"], rv["ops"]):
                        v = self.eval_op(body, val, o)
                        if v is not None:
                            fs.append((n, v))
                    return ("struct", tuple(sorted(fs, key=lambda x: x[0])))
            return None
        if k == "discr":
            pv = self.eval_place(body, val, rv["pl"])
            if isinstance(pv, tuple) and pv[0] == "disc":
                return pv[1]
            if isinstance(pv, tuple) and pv[0] == "opt":
                return 0 if pv[1] is None else 1
            if isinstance(pv, tuple) and pv[0] == "var":
                try:
                    return self.F.variant_discr(pv[1])[pv[2]]
                except Exception:
                    return None
            sp = self.spec
            if sp.enum and V is not None:
                if rv["adt"] == sp.enum or (rv["adt"] in OPT and sp.enum.split("::", 1)[1] in rv["ty"]
                                            and rv["ty"].count("Option<") == 1):
                    if self.rooted_in_param(body, rv["pl"]):
                        if rv["adt"] == sp.enum:
                            return self.discr[V] if V != "<None>" else None
                        return 0 if V == "<None>" else 1
                    self.notes.append("A1: discriminant of %s in %s not rooted in a parameter; not specialised" % (rv["adt"], body.path))
            return None
        if k == "bin":
            a, b = self.eval_op(body, val, rv["a"]), self.eval_op(body, val, rv["b"])
            if isinstance(a, int) and isinstance(b, int):
                op = rv["op"]
                if op == "Eq": return int(a == b)
                if op == "Ne": return int(a != b)
                if op == "Lt": return int(a < b)
                if op == "Le": return int(a <= b)
                if op == "Gt": return int(a > b)
                if op == "Ge": return int(a >= b)
                if op == "BitAnd": return a & b
                if op == "BitOr": return a | b
            return None
        if k == "un":
            a = self.eval_op(body, val, rv["a"])
            if isinstance(a, int) and rv["op"] == "Not":
                ty = rv["a"].get("ty")
                return int(not a) if a in (0, 1) else None
            return None
        return None

    def rooted_in_param(self, body, pl):
        sp = self.spec
        og = self.origins(body)
        base = pl_local(pl)
        roots = {base} if "*" not in pl_proj(pl) else {r for (r, _) in og.of(base)}
        if "*" not in pl_proj(pl):
            # value local: follow move/copy chains back to a parameter
            seen = set()
            work = [base]
            roots = set()
            while work:
                l = work.pop()
                if l in seen:
                    continue
                seen.add(l)
                if 1 <= l <= body.argc:
                    roots.add(l)
                    continue
                ds = body.defs().get(l, [])
                if not ds:
                    roots.add(l)
                for d in ds:
                    if d[2] == "assign" and d[3]["k"] in ("use", "cast"):
                        p = op_place(d[3]["a"])
                        if p is not None:
                            if "*" in pl_proj(p):
                                roots |= {r for (r, _) in og.of(pl_local(p))}
                            else:
                                work.append(pl_local(p))
                        else:
                            roots.add(-1)
                    elif d[2] == "partial":
                        continue
                    else:
                        roots.add(-1)
        if not roots:
            return False
        if body.path in getattr(sp, "a1_extra", ()):
            return all(r >= 0 and any(m in body.locals[r] for m in sp.enum_param_markers) for r in roots)
        for r in roots:
            if not (1 <= r <= body.argc):
                if body.kind == "Closure" and r == 1:
                    continue
                return False
            ty = body.locals[r]
            if not any(m in ty for m in sp.enum_param_markers) and not (body.kind == "Closure" and r == 1):
                return False
        return True

    # ---- exploration ---------------------------------------------------
    def summary(self, path, V):
        key = (path, V)
        if key in self.memo:
            return self.memo[key]
        if key in self.inprogress:
            return {(self.zero, None)}
        self.inprogress.add(key)
        try:
            res = self.explore(self.spec.view(self, self.F.body(path)), V)
        finally:
            self.inprogress.discard(key)
        self.memo[key] = res
        return res

    def explore(self, body, V, init_val=None, start=0, collect=None):
        """returns set of (vec, retval) over all return paths"""
        self.functions.add(body.path)
        lv = self.live(body)
        keep_always = lv.addr_taken
        res = set()
        seen = set()
        v0 = dict(init_val or {})
        st = [((start, self.zero, self._freeze(v0)), None)]
        succ = body.succ()
        parent = {}
        finals = {}
        self.traces = getattr(self, 'traces', {})
        self.traces[(body.path, V)] = (body, parent, finals)
        while st:
            state, par = st.pop()
            if state in seen:
                continue
            seen.add(state)
            parent[state] = par
            self.states += 1
            if len(seen) > self.spec.state_limit:
                raise Explosion("state explosion in %s (V=%s)" % (body.path, V))
            bi, vec, fval = state
            val = dict(fval)
            blk = body.blocks[bi]
            for s in blk["s"]:
                if "lhs" in s:
                    lhs = s["lhs"]
                    v = self.eval_rvalue(body, val, s["rv"], V)
                    if isinstance(lhs, int):
                        if v is None:
                            val.pop(lhs, None)
                        else:
                            val[lhs] = v
                    else:
                        self._store(body, val, lhs, v, keep_always)
                elif "setd" in s:
                    val.pop(pl_local(s["setd"]), None)
            t = blk["t"]
            k = t["k"]
            outs = []   # list of (vec, val, next)
            if k == "ret":
                res.add((vec, self._retval(val.get(0))))
                finals.setdefault(vec, state)
                continue
            if k in ("goto", "drop", "assert"):
                outs.append((vec, val, t["to"]))
            elif k == "switch":
                ov = self.eval_op(body, val, t["op"])
                l = op_local(t["op"])
                pk = None
                eqs = []
                if isinstance(ov, tuple) and ov[0] == "eq":
                    eqs = [ov[1]]
                    ov = None
                if not isinstance(ov, int) and l is not None:
                    pk = self._pred_key(body, l)
                    if pk is not None and pk[0] in val:
                        ov = val[pk[0]] ^ pk[1]
                if isinstance(ov, int):
                    hit = [tg for v, tg in t["ts"] if int(v) == ov]
                    outs.append((vec, val, hit[0] if hit else t["else"]))
                else:
                    is_bool = l is not None and len(t["ts"]) == 1 and int(t["ts"][0][0]) == 0 and body.locals[l] == "bool"
                    srcs = self._copy_sources(body, l) if l is not None else []
                    for v, tg in t["ts"]:
                        nv = dict(val)
                        if l is not None:
                            nv[l] = int(v)
                            for m in srcs + eqs:
                                nv[m] = int(v)
                            self._concretise(nv, [l] + srcs + eqs, int(v))
                            if pk is not None and is_bool:
                                nv[pk[0]] = int(v) ^ pk[1]
                        outs.append((vec, nv, tg))
                    nv = dict(val)
                    if is_bool:
                        nv[l] = 1
                        for m in srcs + eqs:
                            nv[m] = 1
                        self._concretise(nv, [l] + srcs + eqs, 1)
                        if pk is not None:
                            nv[pk[0]] = 1 ^ pk[1]
                    outs.append((vec, nv, t["else"]))
                # let the spec observe which edge is taken
                if hasattr(self.spec, "edge_event"):
                    outs2 = []
                    for (nvec, nval, nb) in outs:
                        d = self.spec.edge_event(self, body, bi, nb)
                        outs2.append((self.spec.add(nvec, d) if d is not None else nvec, nval, nb))
                    outs = outs2
            elif k == "call":
                if t["to"] is None:
                    continue
                for cres in self._call(body, bi, t, val, V):
                    dvec, rv, killrefs = cres[0], cres[1], cres[2]
                    nv = dict(val)
                    if len(cres) > 3:
                        nv.update(cres[3])
                    if killrefs:
                        for a in t["args"]:
                            av = self.eval_op(body, val, a)
                            p = op_place(a)
                            if isinstance(av, tuple) and av[0] == "ref" and p is not None and \
                                    body.locals[pl_local(p)].startswith("&mut"):
                                nv.pop(av[1], None)
                            # a closure (or aggregate) carrying references: whatever it captured may be written
                            for r in _nested_refs(av):
                                if r in self.mut_borrowed(body):
                                    nv.pop(r, None)
                    if "dest" in t:
                        d = t["dest"]
                        if isinstance(d, int):
                            if rv is None:
                                nv.pop(d, None)
                            else:
                                nv[d] = rv
                        else:
                            self._store(body, nv, d, rv, keep_always)
                    outs.append((self.spec.add(vec, dvec), nv, t["to"]))
            else:
                continue
            for (nvec, nval, nb) in outs:
                live = lv.live_in[nb]
                pruned = {l: v for l, v in nval.items() if isinstance(l, tuple) or l in live or l in keep_always}
                st.append(((nb, nvec, self._freeze(pruned)), state))
        if len(seen) > len(body.blocks):
            self.nontrivial.add((body.path, V))
        return res

    def _retval(self, v):
        return v

    def _stable_root(self, body, l, depth=0):
        """root local of a copy chain if it cannot change (parameter or single plain definition, never borrowed mutably)"""
        for _ in range(8):
            if l is None or l in self.mut_borrowed(body):
                return None
            ds = body.defs().get(l, [])
            if not ds:
                return l if 1 <= l <= body.argc else None
            if len(ds) != 1:
                return None
            d = ds[0]
            if d[2] == "assign" and d[3]["k"] == "use":
                p = op_place(d[3]["a"])
                if p is None:
                    return None
                if isinstance(p, int):
                    l = p
                    continue
                return l
            return l
        return None

    @staticmethod
    def _concretise(nv, learned, v):
        """every local recorded as equal to a local whose value was just learned takes that value (the source itself
        may be dead, and dropped from the valuation, by the time the copy is tested)"""
        ls = set(learned)
        for x, xv in list(nv.items()):
            if isinstance(xv, tuple) and xv[0] == "eq" and xv[1] in ls:
                nv[x] = v

    def _stable(self, body, l):
        """a local that keeps its value once set: a parameter or single-assignment local whose address is never taken"""
        if l in self.mut_borrowed(body) or l in body.borrowed():
            return False
        ds = body.defs().get(l, [])
        return (1 <= l <= body.argc and not ds) or (len(ds) == 1 and ds[0][2] in ("assign", "call"))

    def _copy_sources(self, body, l):
        """bare locals that `l` is a plain copy of (so that learning l's value teaches theirs)"""
        out = []
        for _ in range(4):
            if l is None:
                break
            d = body.single_def(l)
            if not (d and d[2] == "assign" and d[3]["k"] == "use"):
                break
            p = op_place(d[3]["a"])
            if not isinstance(p, int) or p in self.mut_borrowed(body):
                break
            nd = body.defs().get(p, [])
            if len(nd) > 1:
                break
            out.append(p)
            l = p
        return out

    def _pred_key(self, body, l):
        """canonical key of a comparison feeding the boolean switch local `l`: (key, negated)"""
        neg = 0
        for _ in range(6):
            d = body.single_def(l)
            if not (d and d[2] == "assign"):
                return None
            rv = d[3]
            if rv["k"] == "un" and rv["op"] == "Not":
                neg ^= 1
                l = op_local(rv["a"])
                if l is None:
                    return None
                continue
            if rv["k"] == "use" and op_local(rv["a"]) is not None:
                l = op_local(rv["a"])
                continue
            if rv["k"] == "bin" and rv["op"] in ("Eq", "Ne", "Lt", "Le", "Gt", "Ge"):
                def term(o):
                    c = op_const(o)
                    if c is not None:
                        return ("c", c)
                    r = self._stable_root(body, op_local(o)) if op_local(o) is not None else None
                    return ("l", r) if r is not None else None
                a, b = term(rv["a"]), term(rv["b"])
                if a is None or b is None:
                    return None
                op = rv["op"]
                # canonical: Ne = !Eq, Ge = !Lt, Le = !Gt
                if op == "Ne":
                    op, neg = "Eq", neg ^ 1
                elif op == "Ge":
                    op, neg = "Lt", neg ^ 1
                elif op == "Le":
                    op, neg = "Gt", neg ^ 1
                return (("pred", op, a, b), neg)
            return None
        return None

    def visited_blocks(self, path, V):
        """blocks visited by explore(path, V)"""
        body, parent, finals = self.traces[(path, V)]
        return {st[0] for st in parent}

    def witness(self, path, V, vec):
        """block path (with source lines and calls) of explore(path, V) reaching count vector vec"""
        body, parent, finals = self.traces[(path, V)]
        st = finals.get(vec)
        out = []
        while st is not None:
            bi, v, _ = st
            t = body.blocks[bi]["t"]
            desc = "bb%d@%s" % (bi, t.get("ln", "?"))
            if t["k"] == "call":
                desc += " call %s" % callee_of(t).split("::")[-1]
            out.append((desc, v))
            st = parent.get(st)
        out.reverse()
        # compress: only keep steps where the vector changes or calls happen
        res = []
        last = None
        for d, v in out:
            if v != last or " call " in d:
                res.append("%s %s" % (d, list(v)))
            last = v
        return res

    def _freeze(self, val):
        return tuple(sorted(val.items(), key=lambda kv: (isinstance(kv[0], tuple), str(kv[0]))))

    def _store(self, body, val, lhs, v, keep_always):
        base = lhs["l"]
        projs = lhs["p"]
        if "*" in projs:
            tgt = val.get(base)
            if isinstance(tgt, tuple) and tgt[0] == "ref" and projs[0] == "*":
                rest = projs[1:]
                if not rest:
                    if v is None:
                        val.pop(tgt[1], None)
                    else:
                        val[tgt[1]] = v
                    return
                self._store_fields(val, tgt[1], rest, v)
                return
            # write through an unknown pointer: forget every address-taken local
            for l in list(val):
                if l in keep_always:
                    val.pop(l, None)
            return
        self._store_fields(val, base, projs, v)

    def _store_fields(self, val, base, projs, v):
        cur = val.get(base)
        if len(projs) == 1 and projs[0].startswith("f|") and isinstance(cur, tuple) and cur[0] == "struct":
            fld = projs[0].split("|", 3)[3]
            d = dict(cur[1])
            if v is None:
                d.pop(fld, None)
            else:
                d[fld] = v
            val[base] = ("struct", tuple(sorted(d.items(), key=lambda x: x[0])))
        else:
            val.pop(base, None)

    # ---- calls -----------------------------------------------------------
    def _call(self, body, bi, t, val, V):
        """yield (delta_vec, retval, kill_mut_ref_args)"""
        sp = self.spec
        callee = callee_of(t)
        fn = t.get("fn", "")
        argv = [self.eval_op(body, val, a) for a in t["args"]]

        def deref(v):
            if isinstance(v, tuple) and v[0] == "ref":
                return val.get(v[1])
            return v

        # pure helpers on tracked values
        if fn in ("core::option::Option::<T>::is_some", "core::option::Option::<T>::is_none"):
            v = deref(argv[0]) if argv else None
            if isinstance(v, tuple) and v[0] == "opt":
                some = v[1] is not None
                return [(self.zero, int(some if fn.endswith("is_some") else not some), False)]
            return [(self.zero, None, False)]
        if fn in ("core::cmp::PartialEq::eq", "core::cmp::PartialEq::ne"):
            a, b = (deref(argv[0]), deref(argv[1])) if len(argv) == 2 else (None, None)
            a, b = deref(a), deref(b)
            if a is None or b is None:
                a2 = self._promoted_arg(body, t["args"][0]) if a is None else a
                b2 = self._promoted_arg(body, t["args"][1]) if b is None else b
                a, b = a2, b2
            if a is not None and b is not None and self._comparable(a) and self._comparable(b):
                eq = (a == b)
                return [(self.zero, int(eq if fn.endswith("eq") else not eq), False)]
            return [(self.zero, None, False)]
        if fn == "core::iter::traits::collect::IntoIterator::into_iter" and argv and isinstance(argv[0], tuple) and argv[0][0] == "range":
            return [(self.zero, argv[0], False)]
        if fn == "core::iter::traits::iterator::Iterator::next" and argv and isinstance(argv[0], tuple) and argv[0][0] == "ref":
            it = val.get(argv[0][1])
            if isinstance(it, tuple) and it[0] == "range":
                if it[1] < it[2]:
                    return [(self.zero, ("opt", "?"), False, {argv[0][1]: ("range", it[1] + 1, it[2])})]
                return [(self.zero, ("opt", None), False)]
        if fn == "core::clone::Clone::clone":
            v = deref(argv[0]) if argv else None
            if v is not None and self._comparable(v):
                return [(self.zero, v, False)]
        if fn in ("std::ops::Deref::deref", "std::ops::DerefMut::deref_mut", "std::convert::AsRef::as_ref",
                  "std::convert::AsMut::as_mut", "std::borrow::Borrow::borrow", "std::borrow::BorrowMut::borrow_mut"):
            # smart-pointer deref: not a tracked value
            pass
        ev = sp.event(self, body, bi, t, argv, val)
        if ev is not None:
            return [(d, rv, True) for (d, rv) in ev]
        bs = sp.builtin_summary(self, body, bi, callee, t, argv, val)
        if bs is not None:
            return [(d, rv, True) for (d, rv) in bs]
        out = None
        if sp.descend(self, callee) and self.F.has(callee):
            summ = self.summary(callee, V)
            out = [(d, rv, True) for (d, rv) in summ]
        elif t.get("virt") or (t.get("tm") and not t.get("res")):
            impls = [i for i in self.F.impls_of(t["fn"]) if sp.descend(self, i) and self.F.has(i)]
            if impls:
                acc = set()
                for i in impls:
                    acc |= self.summary(i, V)
                out = [(d, rv, True) for (d, rv) in acc]
        # closures passed to higher-order functions
        clos = [(i, v) for i, v in enumerate(argv) if isinstance(v, tuple) and v[0] == "closure"]
        if clos and out is None:
            acc = [(self.zero, None, True)]
            for i, cv in clos:
                if not self.F.has(cv[1]):
                    continue
                cs = self.summary(cv[1], V)
                vecs = {d for d, _ in cs}
                if vecs <= {self.zero}:
                    continue
                mult = sp.closure_multiplicity(fn) or ("once" if fn in ONCE else "atmost" if fn in AT_MOST_ONCE else None)
                if mult is None:
                    self.notes.append("BROKEN: closure %s with events passed to unknown higher-order callee %s in %s"
                                      % (cv[1], fn, body.path))
                    mult = "many"
                new = []
                for (d0, _, kk) in acc:
                    for d in vecs:
                        if mult == "once":
                            new.append((sp.add(d0, d), None, True))
                        elif mult == "atmost":
                            new.append((sp.add(d0, d), None, True))
                            new.append((d0, None, True))
                        else:
                            new.append((d0, None, True))
                            new.append((sp.add(d0, d), None, True))
                            new.append((sp.add(d0, sp.add(d, d)), None, True))
                acc = list(set(new))
            # the closure's own return value flows through LocalKey::with
            if fn in ONCE and len(clos) == 1 and self.F.has(clos[0][1][1]):
                cs = self.summary(clos[0][1][1], V)
                acc = [(d, rv, True) for (d, rv) in cs]
            return acc
        if out is not None:
            return out
        return [(self.zero, None, True)]

    def _comparable(self, v):
        return isinstance(v, int) or (isinstance(v, tuple) and v[0] in ("var", "opt") and "?" not in v)

    def _promoted_arg(self, body, op):
        l = op_local(op)
        if l is None:
            return None
        seen = 0
        while l is not None and seen < 6:
            seen += 1
            d = body.single_def(l)
            if d is None or d[2] != "assign":
                return None
            rv = d[3]
            if rv["k"] == "use" and "promoted" in rv["a"]:
                pv = self.F.promoted_value(rv["a"].get("pof", body.path), rv["a"]["promoted"])   # pof: spliced-in code keeps its owner's constants
                if isinstance(pv, tuple) and pv[0] == "variant":
                    return ("var", pv[1], pv[2])
                if isinstance(pv, tuple) and pv[0] == "int":
                    return pv[1]
                return pv
            if rv["k"] in ("use",):
                l = op_local(rv["a"])
            elif rv["k"] == "ref" and not isinstance(rv["pl"], int) and rv["pl"]["p"] == ["*"]:
                l = rv["pl"]["l"]
            else:
                return None
        return None
