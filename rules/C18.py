"""C18 - TCP relay / PROXY protocol (thin partial)."""
import bounds, cover, guards, lib
from mir import callee_of, op_place, op_local, op_const, pl_local, proj_fields

PP = "sozu_lib::protocol::proxy_protocol::"
SR = "sozu_lib::protocol::SessionResult"


def result_variant_sites(b, variant):
    return [(bi, si) for bi, si, s in b.stmts() if s.get("rv", {}).get("k") == "agg" and s["rv"].get("adt", "").endswith("::SessionResult") and s["rv"].get("var") == variant]


def run(F, chk):
    chk.explanation = (
        "Structural necessary conditions around the PROXY-protocol phases decided on MIR: (a) the send phase hands over to "
        "the pipe (SessionResult::Upgrade) only on the edge where the whole serialized header was written, and serializes "
        "the header once; (b) the v2 header parser has no explicit panic; (d) the expect phase upgrades only on the Ok edge "
        "of parse_v2_header and a parse error never reaches Upgrade; (e) the bytes the parser did not consume (`rest`) are "
        "not silently dropped when the session is upgraded.")
    chk.not_decided = "byte exactness and ordering of the relay, half-close ordering, reassembly across arbitrary splits, header contents"
    # ---------------- R-C18-a -----------------------------------------------------
    ra = chk.rule("R-C18-a", "T5", "send phase: Upgrade only when the header is fully written; header built once", floor=2)
    bw = [p for p in F.paths() if p.startswith(PP + "send::SendProxyProtocol") and p.endswith("::back_writable")]
    if ra.require(bw, "SendProxyProtocol::back_writable not found"):
        b = F.body(bw[0])
        ra.fn(b.path)
        ups = result_variant_sites(b, "Upgrade")
        edges = []
        for sb, f, t, atom in guards.bool_switches(b):
            if atom[0] != "cmp":
                continue
            for tgt in (f, t):
                rel = lib.relation_on_edge(b, sb, tgt)
                if rel and rel[0] == "Eq":
                    sa, sbb = rel[1], rel[2]
                    if (any(fl == "cursor_header" for _, fl in sa["fields"]) and any(c.endswith("::len") for c in sbb["callees"])) or \
                       (any(fl == "cursor_header" for _, fl in sbb["fields"]) and any(c.endswith("::len") for c in sa["callees"])):
                        edges.append((sb, tgt))
        if ra.require(ups, "back_writable constructs no SessionResult::Upgrade"):
            key = "%s|Upgrade behind cursor==len" % b.path
            if edges and all(lib.guarded_by(b, bi, edges) for bi, _ in ups):
                ra.ok(key, b.where(ups[0][0]), "Upgrade only on the cursor_header == header.len() edge")
            else:
                ra.violation(key, b.where(ups[0][0]), "the send phase can upgrade to the pipe before the whole PROXY header was written to the backend")
        ws = [(bi, si) for bi, si, s in b.stmts() if "lhs" in s and not isinstance(s["lhs"], int)
              and s["lhs"]["p"][-1].startswith("f|") and proj_fields(s["lhs"])[-1][2] == "header"]
        none_edges = lib.edges_where(b, lambda sb, truth, atom: atom[0] == "call" and atom[1].endswith("Option::<T>::is_none") and truth is True)
        key = "%s|header built once" % b.path
        if ws and none_edges and all(lib.guarded_by(b, bi, none_edges) for bi, _ in ws):
            ra.ok(key, b.where(ws[0][0]), "self.header assigned only under header.is_none()")
        elif ws:
            ra.violation(key, b.where(ws[0][0]), "self.header can be re-serialized while a partially written header is pending")
        else:
            ra.broke("back_writable: no write of self.header found")
    # ---------------- R-C18-b -----------------------------------------------------
    rb = chk.rule("R-C18-b", "T9", "PROXY v2 parser: no explicit panic", floor=3)
    for p in sorted(F.paths()):
        if not p.startswith(PP + "parser::"):
            continue
        b = F.body(p)
        if b.derived:
            continue
        rb.fn(p)
        pans = bounds.explicit_panics(b)
        for i, (bi, c, m) in enumerate(pans):
            rb.violation("%s|panic %s#%d" % (p, c.split("::")[-1], i), b.where(bi), "explicit panic site %s in the PROXY header parser" % c)
        if not pans:
            rb.ok("%s|no explicit panic" % p, b.where(), "", nontrivial=False)
        for j, (bi, kind, t) in enumerate(bounds.index_sites(b)):
            ok, why = bounds.check_site(b, bi, kind, t)
            key = "%s|%s#%d" % (p, kind, j)
            if ok:
                rb.ok(key, b.where(bi), why)
            else:
                rb.info(key, b.where(bi), "not decided (length established by nom take(n)/the caller): " + why)
    pipe_close_rule(F, chk)
    pipe_yield_rule(F, chk)
    # ---------------- R-C18-d / e ---------------------------------------------------
    rd = chk.rule("R-C18-d", "T3", "expect phase: Upgrade only on the Ok edge of parse_v2_header", floor=1)
    re_ = chk.rule("R-C18-e", "T12", "the parser's unconsumed remainder is not dropped on Upgrade", floor=1)
    users0 = [x for x in F.call_sites(PP + "parser::parse_v2_header")]
    rd.require(users0, "no caller of parse_v2_header found")
    # a private helper that does the parsing for one phase function is analysed as part of that function
    users = []
    PHASES = tuple(q for q in F.paths() if q.startswith(PP) and q.endswith(("::readable", "::back_writable", "::writable")) and "{closure" not in q)
    for owner in sorted({lib.owner_of(F, x[0], stop_at=PHASES).path for x in users0}):
        fb = lib.flat(F, F.body(owner), keep=(PP + "parser::parse_v2_header",))
        users += [(fb, bi, t) for bi, t in fb.calls() if callee_of(t) == PP + "parser::parse_v2_header"]
    rd.require(len(users) >= len({x[0].path for x in users0}) or users, "parse_v2_header call sites lost while splicing helpers")
    rg = chk.rule("R-C18-g", "T3", "the header phases never wait for more input without having tried to parse what they hold", floor=1)
    for b, bi, t in users:
        rd.fn(b.path); re_.fn(b.path)
        # R-C18-g: with an edge-triggered socket, `Continue` (wait for the next readable event) is only safe once the
        # bytes accumulated so far were handed to the parser: a header of a length the staged windows do not hit exactly
        # (16-byte LOCAL, headers with TLVs) ends on WouldBlock and must still be parsed on that very call
        conts = result_variant_sites(b, "Continue")
        keyg = "%s|Continue only after a parse attempt" % b.path
        rg.fn(b.path)
        # ... except on the edge where this call read nothing (sz == 0): what is buffered was parsed by the call that read it
        nothing_read = []
        reads = [tt["dest"] for _, tt in b.calls() if callee_of(tt).endswith("::socket_read") and isinstance(tt.get("dest"), int)]
        for sb, f_, t_, atom in guards.bool_switches(b):
            if atom[0] != "cmp":
                continue
            for tgt in (f_, t_):
                rel = lib.relation_on_edge(b, sb, tgt)
                if not rel:
                    continue
                op, sa, sbb, _ = rel
                a_sz = bool(sa["locals"] & set(reads))
                b_sz = bool(sbb["locals"] & set(reads))
                a_z = any(str(c).startswith("0_") for c in sa["consts"]) and not sa["locals"]
                b_z = any(str(c).startswith("0_") for c in sbb["consts"]) and not sbb["locals"]
                if (a_sz and b_z and op in ("Eq", "Le")) or (b_sz and a_z and op in ("Eq", "Ge")):
                    nothing_read.append((sb, tgt))
        early = [x for x, _ in conts if x in b.reachable() and not b.dominates(bi, x)
                 and not (nothing_read and lib.guarded_by(b, x, nothing_read))]
        if conts and not early:
            rg.ok(keyg, b.where(bi), "%d Continue site(s), all dominated by parse_v2_header" % len(conts))
        elif conts:
            rg.violation(keyg, b.where(early[0]), "the phase can return Continue without having called parse_v2_header on the bytes it holds: a complete header that ended on WouldBlock is never parsed (the session stalls, and later payload bytes are swallowed into the header window)")
        res = t["dest"]
        import C17
        sw = C17.discr_switches(b, res)
        ups = result_variant_sites(b, "Upgrade")
        key = "%s|Upgrade on Ok(parse)" % b.path
        if not sw:
            rd.broke("%s: no switch on the parse_v2_header result" % b.path)
            continue
        ok_edges = [(sb, tg.get(0)) for sb, tg, el in sw if 0 in tg]
        if ups and ok_edges and all(lib.guarded_by(b, x, ok_edges) for x, _ in ups):
            rd.ok(key, b.where(ups[0][0]), "every SessionResult::Upgrade is dominated by the Ok edge of parse_v2_header")
        elif ups:
            rd.violation(key, b.where(ups[0][0]), "the session can be upgraded without a successfully parsed PROXY header")
                # nom's Ok((remaining input, value)): the remainder is whatever is bound from (res as Ok).0.0 (any name)
        rest = []
        for x, si, s2 in b.stmts():
            rv = s2.get("rv")
            if rv and rv["k"] in ("use", "ref") and isinstance(s2.get("lhs"), int):
                pl = op_place(rv["a"]) if rv["k"] == "use" else rv["pl"]
                if isinstance(pl, dict) and pl["l"] == res and pl["p"][:2] == ["d|Ok", "f|core::result::Result|Ok|0"] and pl["p"][2:3] == ["t|0"]:
                    rest.append(s2["lhs"])
        key = "%s|rest of parse_v2_header" % b.path
        if not rest:
            re_.violation(key, b.where(bi), "the remainder returned by parse_v2_header is not even bound: bytes after the header are dropped")
            continue
        used = False
        for r in rest:
            for x, tt in b.calls():
                if tt.get("x") and any(k in tt.get("m", "") for k in ("trace", "debug", "log", "assert", "error", "info", "warn")):
                    continue
                for a in tt["args"]:
                    sl = guards.slice_of_operand(b, a)
                    if r in sl["locals"] and x not in (bi,):
                        used = True
            for x, si, s in b.stmts():
                if "lhs" in s and not isinstance(s["lhs"], int) and "*" in s["lhs"]["p"]:
                    rvv = s["rv"]
                    ops = [rvv.get("a"), rvv.get("b")] + rvv.get("ops", [])
                    for o in ops:
                        if o and op_place(o) is not None and r in guards.slice_of_operand(b, o)["locals"]:
                            used = True
        if used:
            re_.ok(key, b.where(bi), "the remainder flows into state / a non-logging call")
        else:
            re_.violation(key, b.where(bi), "the remainder of parse_v2_header is used for logging only: payload bytes read together with the header (staged windows 28/52/232 over-read when the header carries TLVs) are lost on Upgrade")


def pipe_close_rule(F, chk):
    """R-C18-f: Pipe::check_connections decides whether a half-closed relay may be torn down. Necessary condition of
    `end-of-stream is passed on only after all pending bytes were delivered`: in every (frontend status, backend status) arm
    where the receiving side of a direction can still be written (Normal or WriteOpen) while the producing side is finished
    (WriteOpen or Closed), the verdict is either constantly `keep` or depends on that direction's pending-data evidence:
    the bytes buffered in the proxy (`<side>_buffer.available_data()`), the producer's readiness and the kernel splice backlog
    (`splice_*_pending()`). Dependence is structural: the arm reads those itself, or reads a local whose computation (the
    blocks between the nearest common dominator of its assignments and those assignments) reads them. No local names."""
    r = chk.rule("R-C18-f", "T7+T12", "a half-closed pipe is kept while bytes are pending toward a writable side", floor=10)
    cands = [p for p in F.paths() if p.startswith("sozu_lib::protocol::pipe::Pipe") and p.endswith("::check_connections")]
    if not r.require(cands, "Pipe::check_connections not found"):
        return
    b = F.body(cands[0])
    r.fn(b.path)
    CS = "sozu_lib::protocol::pipe::ConnectionStatus"
    dv = F.variant_discr(CS)
    live = set(b.reachable())
    dom = b.dominators()
    pred, succ = b.pred(), b.succ()

    def evidence(blocks):
        flds, calls = set(), set()
        for bi in blocks:
            for s2 in b.blocks[bi]["s"]:
                rv = s2.get("rv")
                if not rv:
                    continue
                for o in [rv.get("a"), rv.get("b")] + rv.get("ops", []):
                    pl = op_place(o) if o else None
                    if pl is not None:
                        flds |= {f for _, _, f in proj_fields(pl)}
                if rv["k"] in ("ref", "raw"):
                    flds |= {f for _, _, f in proj_fields(rv["pl"])}
            t = b.blocks[bi]["t"]
            if t["k"] == "call":
                calls.add(callee_of(t).split("::")[-1])
        return flds, calls

    memo = {}
    def support(l):
        """blocks that compute local l: from the nearest common dominator of its assignments (extended upwards over
        straight-line predecessors) to the assignments"""
        if l in memo:
            return memo[l]
        memo[l] = set()
        dbs = {d[0] for d in b.defs().get(l, []) if d[0] in live}
        if not dbs:
            return memo[l]
        common = set.intersection(*[dom[d] for d in dbs])
        head = max(common, key=lambda x: len(dom[x]))
        while len([p_ for p_ in pred[head] if p_ in live]) == 1:
            head = [p_ for p_ in pred[head] if p_ in live][0]
        fwd = b.reach_from([head])
        back, todo = set(dbs), list(dbs)
        while todo:
            x = todo.pop()
            for p_ in pred[x]:
                if p_ in live and p_ not in back and p_ in fwd:
                    back.add(p_); todo.append(p_)
        reg = (fwd & back) | {head}
        memo[l] = reg
        # operands of the region may themselves be computed locals
        extra = set()
        for bi in list(reg):
            for s2 in b.blocks[bi]["s"]:
                rv = s2.get("rv")
                if not rv:
                    continue
                for o in [rv.get("a"), rv.get("b")] + rv.get("ops", []):
                    pl = op_place(o) if o else None
                    if pl is not None and pl_local(pl) != l and pl_local(pl) > b.argc:
                        if len(b.defs().get(pl_local(pl), [])) > 1:
                            extra |= support(pl_local(pl))
        memo[l] = reg | extra
        return memo[l]

    first = None
    for bi in sorted(live):
        t = b.blocks[bi]["t"]
        if t["k"] == "switch":
            l = op_local(t["op"])
            d = b.single_def(l) if l is not None else None
            if d and d[2] == "assign" and d[3]["k"] == "discr" and d[3]["adt"] == CS:
                first = (bi, t)
                break
    if not r.require(first, "check_connections: no switch on ConnectionStatus"):
        return
    inv = {v: k for k, v in dv.items()}
    DIRS = {"response": ("backend_buffer", "backend_readiness", "splice_out_pending"),
            "request": ("frontend_buffer", "frontend_readiness", "splice_in_pending")}
    for v1, t1 in first[1]["ts"]:
        fs = inv[int(v1)]
        t2 = b.blocks[t1]["t"]
        if t2["k"] != "switch":
            r.broke("unexpected shape of the status match (frontend %s)" % fs)
            continue
        for v2, arm in t2["ts"]:
            bs = inv[int(v2)]
            region = set(b.reach_from([arm]))
            blocks = set(region)
            consts = set()
            for bi in region:
                for s2 in b.blocks[bi]["s"]:
                    rv = s2.get("rv")
                    if not rv:
                        continue
                    for o in [rv.get("a"), rv.get("b")] + rv.get("ops", []):
                        if not o:
                            continue
                        pl = op_place(o)
                        if pl is None:
                            if s2.get("lhs") == 0 and op_const(o) is not None:
                                consts.add(op_const(o))
                        else:
                            if s2.get("lhs") == 0:
                                consts.add("computed")
                            if pl_local(pl) > b.argc:
                                blocks |= support(pl_local(pl))
                t = b.blocks[bi]["t"]
                if t["k"] == "switch":
                    l = op_local(t["op"])
                    if l is not None and l > b.argc:
                        blocks |= support(l)
                if t["k"] == "call" and t.get("dest") == 0:
                    consts.add("computed")
            flds, calls = evidence(blocks)
            have = {d for d, (buf, rd, sp) in DIRS.items() if buf in flds and rd in flds and sp in calls and "available_data" in calls}
            need = []
            if fs in ("Normal", "WriteOpen") and bs in ("WriteOpen", "Closed"):
                need.append("response")
            if bs in ("Normal", "WriteOpen") and fs in ("WriteOpen", "Closed"):
                need.append("request")
            key = "arm (%s, %s)" % (fs, bs)
            missing = [n for n in need if n not in have]
            if missing and consts != {1}:
                r.violation(key, b.where(arm), "the (%s, %s) arm can report `close` without consulting all pending-data evidence of the %s direction (%s): bytes still buffered toward a writable peer are lost and it sees a clean end-of-stream" % (fs, bs, "/".join(missing), ", ".join("+".join(DIRS[m]) for m in missing)))
            else:
                r.ok(key, b.where(arm), "depends on %s%s" % (sorted(have) or "nothing", " returns %s" % sorted(map(str, consts)) if consts else ""), nontrivial=bool(need))


def pipe_yield_rule(F, chk):
    """R-C18-h: when the backend has hung up but bytes are still owed to a client whose socket is blocked, the pipe's
    event loop must YIELD (leave the loop and wait for the next writable event) instead of spinning to the iteration cap
    and closing - which would pass end-of-stream on with bytes undelivered.  The yield guard is
    `backend.event.is_hup() && frontend.interest.is_writable() && !frontend.event.is_writable()`: the middle test has to
    read the raw *interest* (what we still want to do); `interest & event` there makes the guard unsatisfiable."""
    r = chk.rule("R-C18-h", "T5", "the pipe yields on back-pressure after a backend hang-up (the guard reads the raw write interest)", floor=1)
    cands = [p for p in F.paths() if p.startswith("<sozu_lib::protocol::pipe::Pipe") and p.endswith("SessionState>::ready")]
    if not r.require(cands, "<Pipe as SessionState>::ready not found"):
        return
    b = lib.flat(F, F.body(cands[0]))          # the guards may live in a private predicate (`fn should_yield(&self) -> bool`)
    r.fn(b.path)
    def field_chain(op):
        l = op_local(op)
        d = b.single_def(l) if l is not None else None
        if d and d[2] == "assign" and d[3]["k"] in ("ref", "raw") and isinstance(d[3]["pl"], dict):
            return [f for _, _, f in proj_fields(d[3]["pl"])]
        return []
    kinds = {"hup": [], "int": [], "ev": []}
    for sb, f, t, atom in guards.bool_switches(b):
        if atom[0] != "call" or f == t or not atom[2]["args"]:
            continue
        ch = field_chain(atom[2]["args"][0])
        nm = atom[1].rsplit("::", 1)[-1]
        if nm == "is_hup" and ch[-2:] == ["backend_readiness", "event"]:
            kinds["hup"].append((sb, t))
        if nm == "is_writable" and ch[-2:] == ["frontend_readiness", "interest"]:
            kinds["int"].append((sb, t))
        if nm == "is_writable" and ch[-2:] == ["frontend_readiness", "event"]:
            kinds["ev"].append((sb, f))
    key = "%s|yield on backend hup + blocked frontend" % b.path
    ok = False
    for sb, tgt in kinds["ev"]:
        # the `event not writable` test is only reached once `backend hup` and `write interest` held (the exit it leads to
        # may be shared with another yield reason, so the exit block itself need not be dominated by them)
        if kinds["hup"] and kinds["int"] and lib.guarded_by(b, sb, kinds["hup"]) and lib.guarded_by(b, sb, kinds["int"]):
            ok = True
    if ok:
        r.ok(key, b.where(kinds["ev"][0][0]), "loop exit behind backend.event.is_hup() && frontend.interest.is_writable() && !frontend.event.is_writable()")
    else:
        missing = [k for k, v in (("backend_readiness.event.is_hup()", kinds["hup"]), ("frontend_readiness.interest.is_writable()", kinds["int"]), ("!frontend_readiness.event.is_writable()", kinds["ev"])) if not v]
        r.violation(key, b.where(), "the back-pressure yield of the pipe loop is gone or can never fire (%s): with the backend closed and the client slow the loop spins to its cap and closes the session, truncating the stream" % ("missing test: " + ", ".join(missing) if missing else "the three tests do not guard one exit together"))
