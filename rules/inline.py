"""MIR-level inliner over the fact base.

Rules that reason about one function's control flow (dominating guards, validate-then-mutate order, pairing) must not
depend on where a maintainer draws function boundaries: extracting a predicate (`fn at_capacity(&self) -> bool`) or a
block of statements into a private helper leaves behaviour unchanged and has to leave the verdict unchanged.  `inlined`
returns a copy of a body in which every call to a workspace function whose MIR is in the fact base -- except the callees
the rule itself talks about (`keep`) -- is replaced by the callee's blocks:

    bbN:  ...; dest = f(a1, .., an) -> bbK          bbN:  ...; p1 = a1; ..; pn = an; goto f.bb0'
                                               =>   f.bbI': callee blocks, locals and targets renumbered
                                                    f.ret':  dest = move f._0'; goto bbK

Arguments become plain assignments, so a constant argument is propagated by the loader's constant-switch pruning and a
`&self` argument is followed by slices and Origins like any other copy.  Trait-object calls, recursive calls, calls whose
argument count differs from the callee's parameter count (closure ABI) and #[derive]d bodies are left as calls.
Inlining is bounded (`depth` nested levels, `budget` blocks in total) so it terminates on any call graph."""
import copy

import mir


def _place(pl, lo):
    if isinstance(pl, int):
        return pl + lo
    p2 = []
    for e in pl["p"]:
        if e.startswith("i|"):
            try:
                e = "i|%d" % (int(e[2:]) + lo)
            except ValueError:
                pass
        p2.append(e)
    return {"l": pl["l"] + lo, "p": p2}


def _operand(op, lo, origin):
    if op is None:
        return None
    if "cp" in op:
        return {"cp": _place(op["cp"], lo)}
    if "mv" in op:
        return {"mv": _place(op["mv"], lo)}
    if "promoted" in op and "pof" not in op:
        op = dict(op)
        op["pof"] = origin
    return op


def _rvalue(rv, lo, origin):
    k = rv["k"]
    r = dict(rv)
    if k in ("use", "repeat", "cast", "un"):
        r["a"] = _operand(rv["a"], lo, origin)
    elif k == "bin":
        r["a"] = _operand(rv["a"], lo, origin)
        r["b"] = _operand(rv["b"], lo, origin)
    elif k in ("ref", "raw", "discr"):
        r["pl"] = _place(rv["pl"], lo)
    elif k == "agg":
        r["ops"] = [_operand(o, lo, origin) for o in rv["ops"]]
    return r


def _stmt(s, lo, origin):
    r = dict(s)
    if "lhs" in s:
        r["lhs"] = _place(s["lhs"], lo)
        r["rv"] = _rvalue(s["rv"], lo, origin)
    elif "setd" in s:
        r["setd"] = _place(s["setd"], lo)
    return r


def _term(t, lo, bo, origin):
    k = t["k"]
    r = dict(t)
    if k in ("goto",):
        r["to"] = t["to"] + bo
    elif k == "switch":
        r["op"] = _operand(t["op"], lo, origin)
        r["ts"] = [[v, tg + bo] for v, tg in t["ts"]]
        r["else"] = t["else"] + bo
    elif k == "drop":
        r["pl"] = _place(t["pl"], lo)
        r["to"] = t["to"] + bo
    elif k == "assert":
        r["cond"] = _operand(t["cond"], lo, origin)
        r["to"] = t["to"] + bo
    elif k == "call":
        r["args"] = [_operand(a, lo, origin) for a in t["args"]]
        if "dest" in t:
            r["dest"] = _place(t["dest"], lo)
        r["to"] = None if t["to"] is None else t["to"] + bo
        if "fnptr" in t:
            r["fnptr"] = _operand(t["fnptr"], lo, origin)
    return r


def inlined(F, body, keep=(), depth=3, budget=1500, keep_pred=None, policy="private"):
    """a new mir.Body: `body` with calls to workspace functions spliced in.  `keep`: callee paths (exact, or a prefix ending
    in '::' / a suffix starting with '::') that stay calls; `keep_pred(fn)` may veto more.
    policy "private" (default) inlines only non-`pub` callees of the same crate; "all" inlines every workspace callee."""
    cache = F.__dict__.setdefault("_inl_cache", {})
    ck = (body.path, tuple(sorted(keep)), depth, budget, id(keep_pred) if keep_pred else 0, policy)
    if ck in cache:
        return cache[ck]

    def kept(fn):
        for k in keep:
            if fn == k or (k.endswith("::") and fn.startswith(k)) or (k.startswith("::") and fn.endswith(k)):
                return True
        return bool(keep_pred and keep_pred(fn))

    rec = dict(body.rec)
    blocks = [dict(b) for b in copy.deepcopy(body.rec["blocks"])]
    locals_ = list(body.rec["locals"])
    names = [list(n) for n in body.rec["names"]]
    inl = []            # (callee path, first block, last block, call-site block)
    work = [(bi, 0, (body.path,)) for bi in range(len(blocks))]
    added = 0
    while work:
        bi, d, chain = work.pop()
        t = blocks[bi]["t"]
        if t["k"] != "call" or d >= depth:
            continue
        if t.get("virt"):
            continue
        fn = t.get("res") or t.get("fn")
        if not fn or fn in chain or not F.has(fn) or kept(fn) or (t.get("fn") and kept(t["fn"])):
            continue
        cal = F.body(fn)
        if cal.derived or cal.kind not in ("Fn", "AssocFn"):
            continue
        # default policy: only what a refactoring can introduce silently -- non-`pub` functions of the caller's crate
        if policy == "private" and (cal.rec.get("pub") or cal.crate != body.crate):
            continue
        if len(t["args"]) != cal.argc or blocks[bi].get("cl"):
            continue
        if added + len(cal.blocks) > budget:
            continue
        lo, bo = len(locals_), len(blocks)
        added += len(cal.blocks)
        locals_.extend(cal.rec["locals"])
        for n, pl in cal.rec["names"]:
            names.append(["~" + n, _place(pl, lo)])
        ln = t.get("ln", 0)
        pre = [{"lhs": lo + i + 1, "rv": {"k": "use", "a": a}, "ln": ln, "inl": fn} for i, a in enumerate(t["args"])]
        cont, dest = t["to"], t.get("dest")
        blocks[bi]["s"] = list(blocks[bi]["s"]) + pre
        blocks[bi]["t"] = {"k": "goto", "to": bo, "ln": ln, "was_call": t}
        for cb in cal.rec["blocks"]:
            nb = {"cl": cb.get("cl", False), "s": [_stmt(s, lo, fn) for s in cb["s"]], "t": _term(cb["t"], lo, bo, fn),
                  "file": cal.file, "of": fn}
            if nb["t"]["k"] == "ret":
                if cont is None:
                    nb["t"] = {"k": "unreachable"}
                else:
                    if dest is not None:
                        nb["s"].append({"lhs": dest, "rv": {"k": "use", "a": {"mv": lo}}, "ln": ln, "inl_ret": fn})
                    nb["t"] = {"k": "goto", "to": cont, "ln": ln}
            blocks.append(nb)
        inl.append((fn, bo, len(blocks) - 1, bi))
        work.extend((x, d + 1, chain + (fn,)) for x in range(bo, len(blocks)))
    rec["blocks"] = blocks
    rec["locals"] = locals_
    rec["names"] = names
    nb = mir.Body(rec, body.crate)
    nb.inl = inl
    cache[ck] = nb
    return nb


def _single_succ(t):
    k = t["k"]
    if k in ("goto", "drop", "assert"):
        return t["to"]
    if k == "call":
        return t["to"]
    return None


_SUMS = ("core::result::Result", "core::option::Option", "core::ops::control_flow::ControlFlow")
_BRANCH = {"<core::result::Result<T, E> as core::ops::try_trait::Try>::branch": {0: 0, 1: 1},      # Ok -> Continue, Err -> Break
           "<core::option::Option<T> as core::ops::try_trait::Try>::branch": {1: 0, 0: 1}}         # Some -> Continue, None -> Break


def _branch_result(t, env):
    """`r = Try::branch(x)` with the variant of x known: the variant of the ControlFlow it returns"""
    if (t.get("fn") or "").endswith("FromResidual::from_residual"):
        # `?` re-wrapping a failure: the result is the failure variant of the function's return type
        res = t.get("res") or ""
        if res.startswith("<core::result::Result<"):
            return ("v", "core::result::Result", 1, (None,))
        if res.startswith("<core::option::Option<"):
            return ("v", "core::option::Option", 0, ())
        return None
    m = _BRANCH.get(t.get("res") or "")
    if m is None or not t["args"]:
        return None
    src = mir.op_local(t["args"][0])
    v = env.get(src)
    if isinstance(v, tuple) and v[2] in m:
        # Ok(x) -> Continue(x), Some(x) -> Continue(x); the Break payload is the residual (not tracked)
        return ("v", "core::ops::control_flow::ControlFlow", m[v[2]], v[3] if m[v[2]] == 0 else (None,))
    return None


def threaded(F, body, max_chain=20):
    """Jump threading for constant-assigned locals: `x = const c; goto .. -> J: switch x` (the shape `a || b`, `a && b`,
    `let flag = ..; if flag` and an inlined bool-returning helper all lower to) is rewritten so that the path carrying the
    constant goes straight to the arm it selects, through private copies of the straight-line blocks in between.
    Without this, a join block merges `x = true` and `x = <computed>` and every dominance/reachability query loses the
    correlation between the assignment and the branch.  Only locals whose address is never taken are threaded."""
    cache = F.__dict__.setdefault("_thr_cache", {})
    ck = (id(body), max_chain)
    if ck in cache:
        return cache[ck]
    rec = dict(body.rec)
    blocks = [dict(b) for b in copy.deepcopy(body.rec["blocks"])]
    borrowed = body.borrowed()
    n0 = len(blocks)

    def step_env(env, stmts):
        for s in stmts:
            if "lhs" in s:
                lhs = s["lhs"]
                l = mir.pl_local(lhs)
                if isinstance(lhs, int):
                    rv = s["rv"]
                    v = None
                    if rv["k"] == "use":
                        c = mir.op_const(rv["a"])
                        if c is not None:
                            v = c
                        else:
                            src = mir.op_local(rv["a"])
                            if src is not None and src in env:
                                v = env[src]
                            elif src is None:
                                # payload of a known variant: y = (x as V).i
                                q = mir.op_place(rv["a"])
                                xv = env.get(q["l"]) if isinstance(q, dict) else None
                                if isinstance(xv, tuple) and len(q["p"]) == 2 and q["p"][0].startswith("d|") and q["p"][1].startswith("f|"):
                                    fld = q["p"][1].split("|", 3)[3]
                                    if fld.isdigit() and int(fld) < len(xv[3]):
                                        v = xv[3][int(fld)]
                    elif rv["k"] == "agg" and rv.get("ak") == "adt" and "vi" in rv:
                        # a freshly built Ok(..)/Err(..)/Some(..)/None, with what is known about its payload
                        v = ("v", rv["adt"], int(rv["vi"]),
                             tuple(env.get(mir.op_local(o)) if mir.op_local(o) is not None else mir.op_const(o) for o in rv["ops"]))
                    elif rv["k"] == "discr" and isinstance(rv["pl"], int) and isinstance(env.get(rv["pl"]), tuple):
                        v = env[rv["pl"]][2]
                    if v is not None and l not in borrowed:
                        env[l] = v
                    else:
                        env.pop(l, None)
                else:
                    env.pop(l, None)
            elif "setd" in s:
                env.pop(mir.pl_local(s["setd"]), None)

    rounds = 0
    progress = True
    while progress and rounds < 4:
        progress = False
        rounds += 1
        for bd in range(len(blocks)):
            if blocks[bd].get("cl"):
                continue
            env = {}
            step_env(env, blocks[bd]["s"])
            t = blocks[bd]["t"]
            if t["k"] == "call" and "dest" in t:
                br = _branch_result(t, env)
                env.pop(mir.pl_local(t["dest"]), None)
                if br is not None and isinstance(t["dest"], int):
                    env[t["dest"]] = br
            if not env:
                continue
            cur = _single_succ(t)
            if cur is None:
                continue
            path, resolved = [], []
            while cur is not None and cur not in path and len(path) < max_chain and cur != bd:
                blk = blocks[cur]
                step_env(env, blk["s"])
                path.append(cur)
                tt = blk["t"]
                if tt["k"] == "switch":
                    l = mir.op_local(tt["op"])
                    if l is not None and isinstance(env.get(l), int):
                        hit = [tg for v, tg in tt["ts"] if int(v) == env[l]]
                        tgt = hit[0] if hit else tt["else"]
                        resolved.append((len(path) - 1, tgt))
                        cur = tgt           # keep going with what is known: the next test may be decided too
                        continue
                    break
                if tt["k"] == "call" and "dest" in tt:
                    br = _branch_result(tt, env)
                    env.pop(mir.pl_local(tt["dest"]), None)
                    if br is not None and isinstance(tt["dest"], int):
                        env[tt["dest"]] = br
                if not env:
                    break
                cur = _single_succ(tt)
            if not resolved:
                continue
            last_idx, target = resolved[-1]
            path = path[:last_idx + 1]
            # private copies of the chain for this predecessor
            base = len(blocks)
            for i, pb in enumerate(path):
                nb = copy.deepcopy(blocks[pb])
                nb["thr"] = pb
                if i + 1 < len(path):
                    if nb["t"]["k"] == "switch":
                        nb["t"] = {"k": "goto", "to": base + i + 1, "ln": nb["t"].get("ln", 0), "thr_switch": True}
                    else:
                        nb["t"]["to"] = base + i + 1
                else:
                    nb["t"] = {"k": "goto", "to": target, "ln": nb["t"].get("ln", 0), "thr_switch": True}
                blocks.append(nb)
            nt = dict(blocks[bd]["t"])
            nt["to"] = base
            blocks[bd]["t"] = nt
            progress = True
        if len(blocks) > n0 * 4 + 200:
            break
    rec["blocks"] = blocks
    nb = mir.Body(rec, body.crate)
    nb.inl = getattr(body, "inl", [])
    cache[ck] = nb
    return nb
