"""C14 - HTTP/2 peer limits (thin partial: sender-side structural guards only)."""
import alias, bounds, cover, guards, lib
from mir import callee_of, op_place, op_local, op_const, pl_local, proj_fields

H2 = "sozu_lib::protocol::mux::h2::ConnectionH2"
CONV = "sozu_lib::protocol::mux::converter::H2BlockConverter"
FC = "sozu_lib::protocol::mux::h2::H2FlowControl"
STREAM = "sozu_lib::protocol::mux::stream::Stream"


def writes_of(b, adt, fld):
    out = []
    for bi, si, s in b.stmts():
        if "lhs" in s and not isinstance(s["lhs"], int):
            fs = proj_fields(s["lhs"])
            if fs and fs[-1][0] == adt and fs[-1][2] == fld and s["lhs"]["p"][-1].startswith("f|"):
                out.append((bi, si, s))
    return out


def run(F, chk):
    chk.explanation = (
        "Sender-side structural guards of the HTTP/2 limits decided on MIR (necessary conditions only): (a) in the block "
        "converter the send window is debited and a DATA frame emitted only on paths that tested the window (payload fits, "
        "or window > 0 with the payload cut to min(max_frame_size, window)); (b) an outgoing stream is registered only "
        "behind streams.len() < peer max_concurrent_streams and last_stream_id has a closed writer set; (c) peer-supplied "
        "window increments reach the send windows only through checked_add, whose overflow edge ends in goaway / "
        "reset_stream, and a zero increment never reaches a window write; (d) received DATA is followed by "
        "queue_window_update on continuing paths.")
    chk.not_decided = ("that byte totals stay inside the windows (numeric), eventual completion under any WINDOW_UPDATE "
                       "schedule, HPACK table sizes, frame-size arithmetic for HEADERS/CONTINUATION splitting")
    # ---------------- R-C14-a ----------------------------------------------------
    ra = chk.rule("R-C14-a", "T5+T12", "DATA emission / window debit only behind a window test", floor=1)
    call = [p for p in F.paths() if p.startswith("<" + CONV) and p.endswith("::call") and "{closure" not in p]
    if ra.require(len(call) == 1, "H2BlockConverter::call not found"):
        b = lib.flat(F, F.body(call[0]))      # the budgeting of a chunk may live in a private helper
        ra.fn(b.path)
        debits = [(bi, si, s) for bi, si, s in writes_of(b, CONV, "window") if s["rv"]["k"] == "bin" and s["rv"]["op"].startswith("Sub")]
        if ra.require(debits, "no `self.window -= ..` found in H2BlockConverter::call"):
            edges = []
            for sb, f, t, atom in guards.bool_switches(b):
                sl = None
                if atom[0] == "cmp":
                    for tgt in (f, t):
                        rel = lib.relation_on_edge(b, sb, tgt)
                        if rel and rel[0] == "Gt" and any(fl == "window" for _, fl in rel[1]["fields"]) and "0_i32" in {str(c) for c in rel[2]["consts"]}:
                            edges.append((sb, tgt))
                elif atom[0] in ("multi", "place", "call"):
                    l = atom[1] if atom[0] == "multi" else (pl_local(atom[1]) if atom[0] == "place" else None)
                    if atom[0] == "call":
                        cs = {callee_of(atom[2])}
                        flds = set()
                        for a in atom[2]["args"]:
                            s2 = guards.slice_of_operand(b, a)
                            cs |= s2["callees"]; flds |= s2["fields"]
                    else:
                        s2 = b.slice_back([l]); cs, flds = s2["callees"], s2["fields"]
                    if any(c.endswith("is_ok_and") for c in cs):
                        edges.append((sb, t))    # payload_fits_window == true
            for bi, si, s in debits:
                key = "%s|window debit" % b.path
                sl = guards.slice_of_operand(b, s["rv"]["b"])
                prov = any(c.endswith("::min") for c in sl["callees"]) and any(fl == "max_frame_size" for _, fl in sl["fields"])
                if edges and lib.guarded_by(b, bi, edges) and prov:
                    ra.ok(key, b.where(bi, si), "debit behind `payload fits window` or `window > 0`; payload length flows through min(max_frame_size, window)")
                else:
                    ra.violation(key, b.where(bi, si), "the send window is debited / DATA emitted %s" % (
                        "on a path that tested neither `payload fits the window` nor `window > 0`" if not (edges and lib.guarded_by(b, bi, edges))
                        else "with a payload length that no longer flows through min(max_frame_size, window)"))
    data_never_discarded_rule(F, chk)
    # ---------------- R-C14-b ----------------------------------------------------
    rb = chk.rule("R-C14-b", "T5+T4", "outgoing streams behind the peer's MAX_CONCURRENT_STREAMS; closed writers of last_stream_id", floor=2)
    ss = lib.flat(F, F.body(H2 + "::<Front>::start_stream"))
    rb.fn(ss.path)
    ins = [bi for (bi, c) in lib.field_mut_calls_in(ss, H2, "streams") if c.endswith("::insert")]
    edges = []
    for sb, f, t, atom in guards.bool_switches(ss):
        if atom[0] != "cmp":
            continue
        for tgt in (f, t):
            rel = lib.relation_on_edge(ss, sb, tgt)
            if not rel:
                continue
            op, sa, sbb, _ = rel
            a_len = any(fl == "streams" for _, fl in sa["fields"]) and any(c.endswith("::len") for c in sa["callees"])
            b_max = any(fl == "settings_max_concurrent_streams" for _, fl in sbb["fields"])
            if a_len and b_max and op == "Lt":
                edges.append((sb, tgt))
    if rb.require(ins, "start_stream: streams.insert not found"):
        key = "%s|insert behind len<max_concurrent" % ss.path
        if edges and all(lib.guarded_by(ss, x, edges) for x in ins):
            rb.ok(key, ss.where(ins[0]), "streams.insert only on a streams.len() < peer max_concurrent_streams edge")
        else:
            rb.violation(key, ss.where(ins[0]), "a stream towards the peer can be opened without passing the streams.len() < settings_max_concurrent_streams edge")
    okw = {"create_stream", "new_stream_id", "__test_set_last_stream_id", "new_server", "new_client", "new"}
    wpaths = {}
    for b in F.grep("f|%s|ConnectionH2|last_stream_id" % H2):
        if writes_of(b, H2, "last_stream_id"):
            wpaths[b.root if "{closure" in b.path else b.path] = {"last_stream_id"}
    wpaths, _ = lib.fold_private_writers(F, wpaths, lambda fn: fn.split("::")[-1] in okw)
    writers = {w.split("::")[-1] for w in wpaths}
    if writers and writers <= okw:
        rb.ok("ConnectionH2.last_stream_id writers", "", "%s" % sorted(writers), nontrivial=False)
    else:
        rb.violation("ConnectionH2.last_stream_id writers", "", "last_stream_id written by %s (allowed %s)" % (sorted(writers), sorted(okw)))
    # ---------------- R-C14-c ----------------------------------------------------
    rc = chk.rule("R-C14-c", "T5", "peer increments reach the send windows only through checked_add; overflow and zero are refused", floor=3)
    for fn in ("handle_window_update_frame", "update_initial_window_size"):
        cands = [p for p in F.paths() if p.startswith(H2) and p.endswith("::" + fn)]
        if not rc.require(cands, "%s not found" % fn):
            continue
        b = F.body(cands[0])
        rc.fn(b.path)
        wsites = writes_of(b, FC, "window") + writes_of(b, STREAM, "window")
        for k, (bi, si, s) in enumerate(wsites):
            key = "%s|window write#%d" % (b.path, k)
            sl = guards.slice_of_operand(b, s["rv"]["a"]) if "a" in s["rv"] else {"callees": set(), "fields": set()}
            via_checked = any(c.endswith("checked_add") or c.endswith("checked_sub") or c.endswith("saturating_add") for c in sl["callees"]) or \
                (s["rv"]["k"] == "bin")
            # a Some edge of the checked_add result dominates the write
            inexact = sorted(c.split("::")[-1] for c in sl["callees"] if c.endswith(("::max", "::min", "::clamp", "saturating_add", "saturating_sub", "wrapping_add", "wrapping_sub")))
            if any(c.endswith("checked_add") or c.endswith("checked_sub") for c in sl["callees"]) and inexact and fn == "update_initial_window_size":
                rc.violation(key, b.where(bi, si), "the stream window stored after a SETTINGS_INITIAL_WINDOW_SIZE change passes through %s: window arithmetic must be exact (RFC 9113 6.9.2 lets the window go negative; clamping forgets the deficit and later credit re-opens bytes the peer never granted)" % inexact)
            elif any(c.endswith("checked_add") or c.endswith("checked_sub") for c in sl["callees"]):
                rc.ok(key, b.where(bi, si), "value comes from the Some payload of checked_add/checked_sub")
            elif s["rv"]["k"] == "use" and any(c.endswith("::clamp") or c.endswith("::min") or c.endswith("saturating_add") for c in sl["callees"]):
                rc.ok(key, b.where(bi, si), "value clamped/saturated")
            else:
                rc.violation(key, b.where(bi, si), "a send window is written with a value that does not come out of checked arithmetic on the peer-supplied increment")
        if fn == "handle_window_update_frame":
            # zero increment: from the increment == 0 true edge no window write is reachable
            zero_edges = []
            for sb, f, t, atom in guards.bool_switches(b):
                if atom[0] != "cmp":
                    continue
                for tgt in (f, t):
                    rel = lib.relation_on_edge(b, sb, tgt)
                    if rel and rel[0] == "Eq" and "0_u32" in {str(c) for c in rel[2]["consts"]} and any(fl == "increment" for _, fl in rel[1]["fields"]):
                        zero_edges.append((sb, tgt))
            key = "%s|zero increment refused" % b.path
            if zero_edges:
                reach = set()
                for sb, tgt in zero_edges:
                    reach |= b.reach_from([tgt])
                if any(bi in reach for bi, _, _ in wsites):
                    rc.violation(key, b.where(zero_edges[0][0]), "a WINDOW_UPDATE with increment 0 can reach a window write")
                else:
                    ends = [callee_of(t).split("::")[-1] for x, t in b.calls() if x in reach and callee_of(t).split("::")[-1] in ("goaway", "reset_stream")]
                    if ends:
                        rc.ok(key, b.where(zero_edges[0][0]), "increment==0 edge leads to %s and to no window write" % sorted(set(ends)))
                    else:
                        rc.violation(key, b.where(zero_edges[0][0]), "the increment==0 edge no longer reaches goaway/reset_stream")
            else:
                rc.violation(key, b.where(), "no test of increment == 0 found in handle_window_update_frame")
    # ---------------- R-C14-d ----------------------------------------------------
    rd = chk.rule("R-C14-d", "T3", "received DATA is answered by queue_window_update on continuing paths", floor=1)
    hd = [p for p in F.paths() if p.startswith(H2) and p.endswith("::handle_data_frame")]
    if rd.require(hd, "handle_data_frame not found"):
        b = F.body(hd[0])
        rd.fn(b.path)
        q = [bi for bi, t in b.calls() if callee_of(t).endswith("::queue_window_update")]
        if q:
            rd.ok("%s|queue_window_update present" % b.path, b.where(q[0]), "%d queue_window_update site(s) in the DATA handler" % len(q), nontrivial=False)
        else:
            rd.violation("%s|queue_window_update present" % b.path, b.where(), "handle_data_frame never queues a WINDOW_UPDATE: the advertised windows are not replenished")


def data_never_discarded_rule(F, chk):
    """R-C14-e: every DATA payload the peer sends is charged against sozu's advertised connection window; the window is
    given back (WINDOW_UPDATE) by the DATA handler, also for streams that are already closed.  The `Discard` reader state
    swallows a frame's payload without dispatching it, so it may only be entered for frames that carry no flow-control
    debt: wherever `state = H2State::Discard` is assigned, the frame type on that path is not DATA."""
    r = chk.rule("R-C14-e", "T5", "a DATA payload is never swallowed by the Discard state (its window credit would be lost)", floor=1)
    FT = "sozu_lib::protocol::mux::parser::FrameType"
    data_d = F.variant_discr(FT).get("Data")
    n = 0
    roots = set()
    def discard_writes(bb):
        out = []
        for bi, si, st in bb.stmts():
            lhs = st.get("lhs")
            if not (isinstance(lhs, dict) and proj_fields(lhs) and proj_fields(lhs)[-1][2] == "state"):
                continue
            rv = st["rv"]
            if rv["k"] == "use" and op_local(rv["a"]) is not None:
                d = bb.single_def(op_local(rv["a"]))
                rv = d[3] if d and d[2] == "assign" else rv
            if rv["k"] == "agg" and rv.get("var") == "Discard":
                out.append((bi, si))
        return out
    discarders = set()
    for b0 in F.grep('"var":"Discard"'):
        if b0.derived or not b0.path.startswith(H2):
            continue
        if discard_writes(b0):
            roots.add(b0.path)
            discarders.add(b0.path)
    # functions that enter Discard through a helper are examined at the helper's call sites
    for dpath in sorted(discarders):
        for cb, _, _ in F.call_sites(dpath):
            if cb.path.startswith(H2):
                roots.add(cb.root if "{closure" in cb.path else cb.path)
    for rp in sorted(roots):
        b = F.body(rp)
        writes = discard_writes(b) + [(bi, None) for bi, t in b.calls() if callee_of(t) in discarders]
        # edges on which the frame being handled is known to be DATA
        data_edges = []
        for sb in sorted(b.reachable()):
            t = b.blocks[sb]["t"]
            if t["k"] != "switch":
                continue
            l = op_local(t["op"])
            d = b.single_def(l) if l is not None else None
            if d and d[2] == "assign" and d[3]["k"] == "discr" and d[3]["adt"] == FT:
                data_edges += [(sb, tg) for v, tg in t["ts"] if int(v) == data_d]
        for i, (bi, si) in enumerate(writes):
            n += 1
            r.fn(b.path)
            key = "%s|Discard#%d not for DATA" % (b.path, i)
            dom = b.dominators()
            hit = [e for e in data_edges if e[1] in dom.get(bi, ()) and bi in b.reach_from([e[1]])]
            # dominated by the DATA arm: the target block of a DATA edge dominates the write
            if hit:
                r.violation(key, b.where(bi, si), "the reader enters H2State::Discard for a DATA frame: its payload is dropped without reaching the DATA handler, so the bytes the peer spent from the connection window are never credited back (WINDOW_UPDATE) and later uploads on the connection stall")
            else:
                r.ok(key, b.where(bi, si), "not on a path that established FrameType::Data")
    r.require(n >= 1, "no assignment of H2State::Discard found")
