"""Template T2: validate-then-mutate.  For a method f(&mut self, ..) -> Result<_, E>: no path
entry -> (mutation of state reachable from self) -> (error exit)."""
from mir import op_place, op_local, pl_local, pl_proj, callee_of, proj_fields
import alias

MUTATING = {"insert", "push", "push_back", "push_front", "push_str", "extend", "extend_from_slice", "append",
            "clear", "truncate", "sort", "sort_by", "sort_by_key", "sort_unstable", "sort_unstable_by",
            "sort_unstable_by_key", "dedup", "dedup_by", "dedup_by_key", "or_insert", "or_insert_with",
            "or_default", "and_modify", "retain", "retain_mut", "remove", "remove_entry", "pop", "pop_front",
            "pop_back", "take", "swap_remove", "drain", "replace", "swap", "insert_entry", "resize",
            "reserve", "shrink_to_fit", "set", "get_or_insert_with", "clone_from", "split_off", "reverse"}
# mutating only when the returned value says so: name -> ('some' | 'true')
CONDITIONAL = {"remove": "some", "remove_entry": "some", "pop": "some", "pop_front": "some", "pop_back": "some",
               "take": "some", "swap_remove": "some"}
SET_INSERT = ("HashSet", "BTreeSet")
# take &mut but only hand out access / are combinators: the access itself is not a mutation
PASSTHROUGH = {"get_mut", "entry", "iter_mut", "values_mut", "as_mut", "deref_mut", "borrow_mut", "as_deref_mut",
               "as_mut_slice", "first_mut", "last_mut", "branch", "ok_or", "ok_or_else", "unwrap", "expect",
               "into_iter", "next", "by_ref", "as_mut_ptr", "get_or_insert_with", "unwrap_or_default",
               "from_residual", "into", "from", "index_mut", "key", "get", "peek_mut", "or_else", "unwrap_or"}
HIGHER = {"map", "and_then", "for_each", "map_or", "map_or_else", "inspect", "filter", "filter_map", "any", "all",
          "find", "retain", "retain_mut", "and_modify", "unwrap_or_else", "or_insert_with", "is_some_and", "then"}
RESULT = "core::result::Result"


def last(c):
    return c.rsplit("::", 1)[-1]


class T2:
    def __init__(self, F, body, self_arg=1, census=(), family=(), summaries=None):
        self.F, self.b = F, body
        self.self_arg = self_arg
        self.census = set(census)
        self.family = set(family)
        self.og = alias.Origins(body)
        self.unknown = []
        self.summaries = summaries if summaries is not None else {}

    # ---- helpers ---------------------------------------------------------
    def rooted(self, origins):
        """origins that are inside *self (excluding the census fields)"""
        out = []
        for (r, path) in origins:
            if r != self.self_arg:
                continue
            if path and (path[0] in self.census or any(p in self.census for p in path)):
                continue
            out.append(path)
        return out

    def closure_of(self, op):
        l = op_local(op)
        if l is None:
            return None
        for d in self.b.defs().get(l, []):
            if d[2] == "assign" and d[3]["k"] == "agg" and d[3].get("ak") == "closure":
                return d[3]["clo"]
        return None

    def fn_mutates_param(self, path, param, depth=0):
        """does workspace function `path` (transitively, bounded) write through its parameter #param"""
        key = (path, param)
        memo = self.__class__._memo
        if key in memo:
            return memo[key]
        memo[key] = False
        if not self.F.has(path) or depth > 4:
            memo[key] = True
            return True
        cb = self.F.body(path)
        og = alias.Origins(cb)
        res = False
        for bi, si, s in cb.stmts():
            if "lhs" in s and not isinstance(s["lhs"], int) and "*" in pl_proj(s["lhs"]):
                if any(r == param for (r, _) in og.place_origins(s["lhs"])):
                    res = True
                    break
        if not res:
            for bi, t in cb.calls():
                c = callee_of(t)
                name = last(c)
                for ai, a in enumerate(t["args"]):
                    pp = op_place(a)
                    if pp is None:
                        continue
                    l = pl_local(pp)
                    ty = cb.locals[l]
                    if not ("&mut" in ty or "Mut<" in ty or "Entry<" in ty):
                        continue
                    if not any(r == param for (r, _) in og.of(l)):
                        continue
                    if name in MUTATING and ai == 0:
                        res = True
                    elif name in HIGHER and any(True for a2 in t["args"][1:]):
                        for a2 in t["args"][1:]:
                            l2 = op_local(a2)
                            if l2 is None:
                                continue
                            for d in cb.defs().get(l2, []):
                                if d[2] == "assign" and d[3]["k"] == "agg" and d[3].get("ak") == "closure":
                                    if self.closure_mutates(d[3]["clo"]):
                                        res = True
                    elif name in PASSTHROUGH or c.startswith(("core::", "std::", "alloc::")):
                        pass
                    elif self.F.has(c):
                        if self.fn_mutates_param(c, ai + 1, depth + 1):
                            res = True
                    else:
                        res = True
                    if res:
                        break
                if res:
                    break
        memo[key] = res
        return res

    _memo = {}

    def false_is_clean(self, path, param):
        """bool-returning workspace callee: every `return false` path is free of mutations through #param"""
        cb = self.F.body(path)
        sub = T2(self.F, cb, self_arg=param, census=(), family=())
        evs = sub.events()
        false_pts = []
        for bi, si, s in cb.stmts():
            if s.get("lhs") == 0:
                rv = s["rv"]
                if rv["k"] == "use" and "c" in rv["a"]:
                    if rv["a"].get("v") == "0":
                        false_pts.append((bi, si))
                else:
                    return False      # computed return value: cannot tell
        for bi, t in cb.calls():
            if t.get("dest") == 0:
                return False
        if not false_pts:
            return False
        for e in evs:
            reach = cb.reach_from(e["starts"] if e["starts"] is not None else cb.succ()[e["bb"]])
            for (fb, fs) in false_pts:
                if fb in reach or (e["starts"] is None and fb == e["bb"] and fs > e["si"]):
                    return False
        return True

    def closure_mutates(self, path, depth=0):
        """does the closure body write through any of its parameters/captures (flow-insensitive)"""
        if not self.F.has(path) or depth > 3:
            return False
        cb = self.F.body(path)
        og = alias.Origins(cb)
        for bi, si, s in cb.stmts():
            if "lhs" in s and not isinstance(s["lhs"], int) and "*" in pl_proj(s["lhs"]):
                if any(1 <= r <= cb.argc for (r, _) in og.place_origins(s["lhs"])):
                    return True
        for bi, t in cb.calls():
            name = last(callee_of(t))
            for a in t["args"][:1]:
                p = op_place(a)
                if p is None:
                    continue
                l = pl_local(p)
                if "&mut" in cb.locals[l] or "Mut<" in cb.locals[l]:
                    if any(1 <= r <= cb.argc for (r, _) in og.of(l)):
                        if name in MUTATING or callee_of(t) in self.family:
                            return True
                        if name in HIGHER:
                            for a2 in t["args"][1:]:
                                l2 = op_local(a2)
                                if l2 is not None:
                                    for d in cb.defs().get(l2, []):
                                        if d[2] == "assign" and d[3]["k"] == "agg" and d[3].get("ak") == "closure":
                                            if self.closure_mutates(d[3]["clo"], depth + 1):
                                                return True
        return False

    # ---- events ----------------------------------------------------------
    def events(self):
        """list of dict(bb, si, what, starts=[blocks from which the mutation has happened], key)"""
        b, og = self.b, self.og
        ev = []
        for bi, si, s in b.stmts():
            if "lhs" not in s or isinstance(s["lhs"], int):
                continue
            lhs = s["lhs"]
            if "*" not in pl_proj(lhs):
                continue
            paths = self.rooted(og.place_origins(lhs))
            if paths:
                fld = ".".join(f for (_, f) in paths[0]) or "*self"
                ev.append({"bb": bi, "si": si, "what": "write self.%s" % fld, "starts": None, "field": fld})
        for bi, t in b.calls():
            c = callee_of(t)
            name = last(c)
            if t["to"] is None:
                continue
            hit = None
            for ai, a in enumerate(t["args"]):
                p = op_place(a)
                if p is None:
                    continue
                l = pl_local(p)
                ty = b.locals[l]
                if not ("&mut" in ty or "Mut<" in ty or "Entry<" in ty or "*mut" in ty):
                    continue
                paths = self.rooted(og.of(l))
                if paths:
                    hit = (ai, paths)
                    break
            if hit is None:
                continue
            ai, paths = hit
            fld = ".".join(f for (_, f) in paths[0]) or "*self"
            what = None
            cond = None
            if c in self.family or t.get("fn") in self.family:
                sm = self.summaries.get(c)
                if sm is None or sm["mutates"]:
                    what = "call %s (may mutate)" % name
                    # an atomic sibling that returns Err has not mutated (checked on its own)
                    if b.locals[t["dest"]].startswith(RESULT) if isinstance(t.get("dest"), int) else False:
                        cond = "ok"
            elif name in HIGHER and any(self.closure_of(a2) for a2 in t["args"]):
                clo = [self.closure_of(a2) for a2 in t["args"] if self.closure_of(a2)]
                if any(self.closure_mutates(cl) for cl in clo):
                    what = "%s(closure mutating self.%s)" % (name, fld)
                    if name in ("map", "and_then", "inspect", "is_some_and", "and_modify"):
                        cond = "some" if "option::Option" in c else ("ok" if "result::Result" in c else None)
                elif name in ("retain", "retain_mut"):
                    what = "retain on self.%s" % fld
            elif name in MUTATING and ai == 0:
                if name == "insert" and any(x in c for x in SET_INSERT):
                    cond = "true"
                elif name in CONDITIONAL:
                    cond = CONDITIONAL[name]
                what = "%s on self.%s" % (name, fld)
            elif name in PASSTHROUGH or name in HIGHER:
                what = None
            elif c.startswith(("core::", "std::", "alloc::")) and ai != 0:
                what = None
            elif self.F.has(c):
                if self.fn_mutates_param(c, ai + 1):
                    what = "call %s (writes through its &mut argument) on self.%s" % (name, fld)
                    if isinstance(t.get("dest"), int) and b.locals[t["dest"]] == "bool" and self.false_is_clean(c, ai + 1):
                        cond = "true"   # the callee reports `false` only on paths where it changed nothing
            else:
                # unknown callee receiving &mut into self: conservative
                self.unknown.append((bi, c))
                what = "call %s with &mut self.%s" % (name, fld)
            if what is None:
                continue
            starts = [t["to"]]
            if cond:
                tgt = self.cond_target(bi, t, cond)
                if tgt is not None:
                    starts = tgt
                    what += " [only on the %s edge]" % cond
            ev.append({"bb": bi, "si": None, "what": what, "starts": starts, "field": fld, "callee": c})
        return ev

    def cond_target(self, bi, t, cond):
        """follow dest through ok_or/ok_or_else/Try::branch/is_some/is_none to the switch that separates the
        'mutation happened' outcome; returns the list of successor blocks where it DID happen"""
        b = self.b
        dest = t.get("dest")
        if not isinstance(dest, int):
            return None
        cur = dest
        # shape: 'some' (Option, Some=1), 'ok' (Result Ok=0), 'cont' (ControlFlow Continue=0), 'true' (bool)
        shape = cond
        nb = t["to"]
        for _ in range(14):
            blk = b.blocks[nb]
            # statements may compute a discriminant of cur, or a reference to it
            refs = {cur}
            disc = None
            for s in blk["s"]:
                if "lhs" in s and isinstance(s["lhs"], int):
                    rv = s["rv"]
                    if rv["k"] == "discr" and pl_local(rv["pl"]) in refs and not pl_proj(rv["pl"]):
                        disc = s["lhs"]
                    elif rv["k"] in ("ref",) and pl_local(rv["pl"]) in refs and not pl_proj(rv["pl"]):
                        refs.add(s["lhs"])
                    elif rv["k"] == "use" and op_local(rv["a"]) in refs:
                        refs.add(s["lhs"])
                        if s["lhs"] == 0 and shape == "ok":
                            return []
            tt = blk["t"]
            if tt["k"] == "switch":
                l = op_local(tt["op"])
                want = None
                if disc is not None and l == disc:
                    want = {"some": 1, "ok": 0, "cont": 0}.get(shape)
                elif l in refs and shape == "true":
                    want = 1
                elif l in refs and shape in ("false",):
                    want = 0
                if want is None:
                    return None
                hit = [tg for v, tg in tt["ts"] if int(v) == want]
                if hit:
                    return hit
                # 'otherwise' edge carries the wanted value iff all explicit values differ
                return [tt["else"]]
            if tt["k"] == "call" and tt["to"] is not None and isinstance(tt.get("dest"), int):
                fn = tt.get("fn", "")
                a0 = op_local(tt["args"][0]) if tt["args"] else None
                if a0 in refs:
                    nm = last(fn)
                    if nm in ("ok_or", "ok_or_else") and shape == "some":
                        shape, cur = "ok", tt["dest"]
                    elif nm == "branch" and shape in ("ok", "some"):
                        shape, cur = ("cont" if shape == "ok" else "some_cf"), tt["dest"]
                        if shape == "some_cf":
                            shape = "cont"   # Option's Try: Continue iff Some
                    elif nm == "is_some" and shape == "some":
                        shape, cur = "true", tt["dest"]
                    elif nm == "is_none" and shape == "some":
                        shape, cur = "false", tt["dest"]
                    elif nm in ("is_ok",) and shape == "ok":
                        shape, cur = "true", tt["dest"]
                    elif nm in ("is_err",) and shape == "ok":
                        shape, cur = "false", tt["dest"]
                    elif nm in ("map_err", "inspect_err", "or_else") and shape == "ok":
                        shape, cur = "ok", tt["dest"]
                    elif nm in ("ok",) and shape == "ok":
                        shape, cur = "some", tt["dest"]
                    else:
                        return None
                    if cur == 0:
                        return []      # the value is returned as is: mutated iff the function returns Ok
                    nb = tt["to"]
                    continue
                # an unrelated call on the straight line: skip it
                if any(op_local(a) in refs for a in tt["args"]):
                    return None
                nb = tt["to"]
                continue
            if tt["k"] in ("goto", "drop"):
                nb = tt["to"]
                continue
            if tt["k"] == "ret" and cur in self.flows_to_return() and shape == "ok":
                return []
            return None
        return None

    # ---- error exits -----------------------------------------------------
    def error_points(self):
        b = self.b
        pts = []
        ret_ty = b.locals[0]
        flows = self.flows_to_return()
        for bi, si, s in b.stmts():
            rv = s.get("rv")
            if rv and rv["k"] == "agg" and rv.get("ak") == "adt" and rv["adt"] == RESULT and rv["var"] == "Err":
                if isinstance(s["lhs"], int) and s["lhs"] in flows:
                    pts.append({"bb": bi, "si": si, "what": "Err(..) built"})
        for bi, t in b.calls():
            d = t.get("dest")
            if not isinstance(d, int) or d not in flows:
                continue
            fn = t.get("fn", "")
            if fn.endswith("FromResidual::from_residual"):
                src = self.residual_source(t)
                sm = self.summaries.get(src) if src else None
                if sm is not None and not sm["fails"]:
                    continue   # `?` on a sibling that has no error exit
                pts.append({"bb": bi, "si": None, "what": "`?` propagates an error" + ((" of " + last(src)) if src else ""),
                            "src": src})
            elif b.locals[d] == ret_ty and ret_ty.startswith(RESULT):
                nm = last(callee_of(t))
                if nm in ("map_err", "ok_or", "ok_or_else", "and_then", "map", "or_else"):
                    pts.append({"bb": bi, "si": None, "what": "fallible value from %s returned" % nm})
                else:
                    sm = self.summaries.get(callee_of(t))
                    if sm is not None and not sm["fails"]:
                        continue
                    pts.append({"bb": bi, "si": None, "what": "result of %s returned" % nm, "tail": callee_of(t)})
        return pts

    def residual_source(self, t):
        """callee whose Result the `?` at from_residual call `t` propagates"""
        b = self.b
        l = op_local(t["args"][0]) if t["args"] else None
        for _ in range(8):
            if l is None:
                return None
            ds = b.defs().get(l, [])
            if len(ds) != 1:
                return None
            bi, si, kind, payload = ds[0]
            if kind == "call":
                fn = payload.get("fn", "")
                if fn.endswith("Try::branch"):
                    l = op_local(payload["args"][0])
                    continue
                return callee_of(payload)
            if kind == "assign" and payload["k"] == "use":
                p = op_place(payload["a"])
                l = pl_local(p) if p is not None else None
                continue
            return None
        return None

    def flows_to_return(self):
        """locals whose value may flow (by move/copy) into _0"""
        b = self.b
        flows = {0}
        changed = True
        while changed:
            changed = False
            for l in list(flows):
                for d in b.defs().get(l, []):
                    if d[2] == "assign" and d[3]["k"] == "use":
                        s = op_local(d[3]["a"])
                        if s is not None and s not in flows:
                            flows.add(s)
                            changed = True
        return flows

    # ---- verdict -----------------------------------------------------------
    def violations(self):
        b = self.b
        out = []
        evs = self.events()
        errs = self.error_points()
        for e in evs:
            if e["starts"] is None:
                starts = [e["bb"]]
                reach = b.reach_from(b.succ()[e["bb"]])
                same_block_after = e["si"]
            else:
                reach = b.reach_from(e["starts"])
                same_block_after = None
            for p in errs:
                bad = False
                if p["bb"] in reach:
                    bad = True
                    if e.get("callee") and last(e["callee"]) in ("retain", "retain_mut") and self.len_guarded(e, p):
                        bad = False
                elif same_block_after is not None and p["bb"] == e["bb"]:
                    if p["si"] is None or p["si"] > same_block_after:
                        bad = True
                if bad:
                    out.append((e, p))
        return evs, errs, out

    def len_guarded(self, e, p):
        """`let n = v.len(); v.retain(..); if v.len() == n { return Err }`: the error exit is only reachable
        from the retain through an edge on which the length is unchanged, i.e. nothing was removed"""
        import lib, guards
        b = self.b
        t = b.blocks[e["bb"]]["t"]
        recv = self.og.of(pl_local(op_place(t["args"][0])))
        edges = []
        for bi, f, tt, atom in guards.bool_switches(b):
            if atom[0] != "cmp":
                continue
            for tgt in (f, tt):
                rel = lib.relation_on_edge(b, bi, tgt)
                if rel is None or rel[0] != "Eq":
                    continue
                sides = []
                for opnd in (atom[2], atom[3]):
                    l = op_local(opnd)
                    lens = []
                    sl = b.slice_back([l]) if l is not None else {"locals": set()}
                    for l2 in sl["locals"]:
                        for d in b.defs().get(l2, []):
                            if d[2] == "call" and last(callee_of(d[3])) == "len":
                                a0 = op_place(d[3]["args"][0])
                                if a0 is not None and self.og.of(pl_local(a0)) & recv:
                                    lens.append(d[0])
                    sides.append(lens)
                if not sides[0] or not sides[1]:
                    continue
                before = [x for x in sides[0] + sides[1] if b.dominates(x, e["bb"]) and x != e["bb"]]
                after = [x for x in sides[0] + sides[1] if x in b.reach_from([t["to"]])]
                if before and after:
                    edges.append((bi, tgt))
        if not edges:
            return False
        import guards as g
        return p["bb"] not in g.reach_without_edges(b, edges, start=t["to"])

    def summary(self):
        return {"mutates": bool(self.events()), "fails": bool(self.error_points())}
