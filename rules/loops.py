"""Template T10: loop budgets. Natural loops, counters, budget exits."""
from mir import op_place, op_local, op_const, pl_local, callee_of
import guards, lib


def natural_loops(b):
    """[(header, body_set, [back edge sources])]"""
    loops = {}
    sc = b.succ()
    pr = b.pred()
    for u in sorted(b.reachable()):
        for h in sc[u]:
            if b.dominates(h, u):
                body = {h, u}
                st = [u]
                while st:
                    x = st.pop()
                    if x == h:
                        continue
                    for p in pr[x]:
                        if p not in body and p in b.reachable():
                            body.add(p)
                            st.append(p)
                loops.setdefault(h, [set(), []])
                loops[h][0] |= body
                loops[h][1].append(u)
    return [(h, v[0], v[1]) for h, v in sorted(loops.items())]


def own_blocks(b, h, body):
    """blocks of the loop that are not inside a loop nested in it"""
    own = set(body)
    for h2, bd, _ in natural_loops(b):
        if h2 != h and h2 in body and bd < body:
            own -= bd
    return own


def is_iterator_loop(b, h, body):
    """for-loop / queue-draining loop: an Iterator::next (or pop_front/pop_back/pop) called at this loop's own
    nesting level; returns 'iter', 'queue' or None"""
    own = own_blocks(b, h, body)
    kind = None
    for x in own:
        t = b.blocks[x]["t"]
        if t["k"] == "call":
            fn = t.get("fn", "")
            if fn.endswith("Iterator::next") or fn.endswith("DoubleEndedIterator::next_back"):
                return "iter"
            if fn.endswith("::pop_front") or fn.endswith("::pop_back") or fn.endswith("Vec::<T, A>::pop"):
                kind = "queue"
    return kind


def budget(b, h, body, backs):
    """returns (ok, detail): a counter incremented on every cycle and compared with a constant bound on an
    exit edge that lies on every cycle"""
    sc = b.succ()
    # counters: x = Add(x', 1) in the loop where x' is x or a copy of x
    counters = {}
    for x in body:
        for si, s in enumerate(b.blocks[x]["s"]):
            rv = s.get("rv")
            if rv and rv["k"] == "bin" and rv["op"].startswith("Add") and op_const(rv["b"]) == 1:
                a = op_local(rv["a"])
                lhs = s["lhs"] if isinstance(s.get("lhs"), int) else None
                if a is None or lhs is None:
                    continue
                roots = {a}
                d = b.single_def(a)
                if d and d[2] == "assign" and d[3]["k"] == "use" and op_local(d[3]["a"]) is not None:
                    roots.add(op_local(d[3]["a"]))
                # checked add: (x, flag) = AddWithOverflow; x = move tuple.0
                counters.setdefault(x, []).append((lhs, roots))
    if not counters:
        return False, "no counter incremented in the loop"
    # which source variable is the counter: named locals written in the loop from the Add result
    cand = set()
    for x, lst in counters.items():
        for lhs, roots in lst:
            cand |= roots | {lhs}
            # follow `c = move (tmp.0)` patterns
            for y in body:
                for s in b.blocks[y]["s"]:
                    rv = s.get("rv")
                    if rv and rv["k"] == "use" and isinstance(s.get("lhs"), int):
                        p = op_place(rv["a"])
                        if p is not None and pl_local(p) == lhs:
                            cand.add(s["lhs"])
    inc_blocks = set(counters)
    # exit comparisons
    exits = []
    for x in body:
        t = b.blocks[x]["t"]
        if t["k"] != "switch":
            continue
        outs = [y for y in sc[x] if y not in body]
        if not outs:
            continue
        l = op_local(t["op"])
        if l is None:
            continue
        neg, atom = guards.cond_atom(b, l)
        if atom[0] != "cmp":
            continue
        sa, sb = guards.slice_of_operand(b, atom[2]), guards.slice_of_operand(b, atom[3])
        for s1, s2 in ((sa, sb), (sb, sa)):
            if (s1["locals"] & cand) and not (s2["locals"] & cand) and (s2["consts"] and not s2["locals"] - set()):
                exits.append((x, sorted(str(c) for c in s2["consts"])))
            elif (s1["locals"] & cand) and s2["consts"] and len(s2["locals"]) <= 1:
                exits.append((x, sorted(str(c) for c in s2["consts"])))
    if not exits:
        return False, "no exit edge compares the loop counter with a constant bound"
    # every cycle passes through an increment and through a bounded exit test
    def cycles_broken(removed):
        # can we still go header -> ... -> back edge source -> header avoiding `removed`?
        if h in removed:
            return True
        reach = b.reach_from([h], removed=removed)
        reach = {x for x in reach if x in body}
        return not any(u in reach for u in backs)
    if not cycles_broken(inc_blocks):
        return False, "a cycle of the loop avoids the counter increment"
    if not cycles_broken({x for x, _ in exits}):
        return False, "a cycle of the loop avoids the bounded exit test"
    return True, "counter incremented on every cycle; exit test against %s on every cycle" % sorted({c for _, cs in exits for c in cs})[:3]
