"""C09 - the master gives each client request exactly one final answer, consistent with the gathered
worker responses and with the timeout."""
import engine, lib, guards
from engine import Engine, Spec
from mir import callee_of, op_place, op_local, op_const, pl_local, proj_fields
from facts import Broken

RT = "sozu_command_lib::proto::command::request::RequestType"
HCR = "sozu::command::requests::<impl sozu::command::server::Server>::handle_client_request"
MC = "sozu::command::server::MessageClient::"
FINISH = (MC + "finish_ok", MC + "finish_ok_with_content", MC + "finish_failure")
FIN_OK = (MC + "finish_ok", MC + "finish_ok_with_content")
TASK = ("sozu::command::server::Server::scatter", "sozu::command::server::Server::new_task")
CANCEL = ("sozu::command::server::Server::cancel_task",)
ONFINISH = "sozu::command::server::GatheringTask::on_finish"


class MasterSpec(Spec):
    """accumulator: (finishes, tasks registered, tasks cancelled, sites)"""
    enum = RT
    enum_param_markers = ("proto::command::Request", "RequestType")
    state_limit = 800000

    def __init__(self, F):
        self.F = F
        self.reach = None

    def zero(self):
        return (0, 0, 0, ())

    def add(self, a, d):
        return (min(2, a[0] + d[0]), min(2, a[1] + d[1]), min(2, a[2] + d[2]),
                tuple(sorted(set(a[3]) | set(d[3]))))

    def prepare(self):
        F = self.F
        names = [p for p in F.paths() if p.startswith("sozu::command::") or p.startswith("<sozu::command::")]
        edges = {}
        leaves = set(FINISH) | set(TASK) | set(CANCEL)
        for p in names:
            b = F.body(p)
            outs = set()
            for bi, t in b.calls():
                outs.add(callee_of(t))
                if t.get("fn"):
                    outs.add(t["fn"])
            for bi, si, s in b.stmts():
                rv = s.get("rv")
                if rv and rv["k"] == "agg" and rv.get("ak") == "closure":
                    outs.add(rv["clo"])
            edges[p] = outs
        reach = {p for p in names if edges[p] & leaves}
        changed = True
        while changed:
            changed = False
            for p in names:
                if p not in reach and edges[p] & reach:
                    reach.add(p)
                    changed = True
        reach -= set(TASK) | set(CANCEL)
        # never descend into the event leaves' implementations
        reach = {p for p in reach if not any(("MessageClient>::" + m) in p for m in
                                             ("finish_ok", "finish_failure", "finish_ok_with_content"))}
        self.reach = reach

    def event(self, eng, body, bi, t, argv, val):
        fn = t.get("fn")
        if fn in FINISH:
            return [((1, 0, 0, (lib.site_id(body, bi),)), None)]
        if fn in TASK:
            return [((0, 1, 0, (lib.site_id(body, bi),)), None)]
        if fn in CANCEL:
            return [((0, 0, 1, ()), None)]
        return None

    def builtin_summary(self, eng, body, bi, callee, t, argv, val):
        return None

    def descend(self, eng, callee):
        return callee in self.reach

    def view(self, eng, body):
        # private helpers without events of their own (a hoisted decision, a merged answer, ..) are part of their caller
        import inline
        keep = lambda fn: (fn in self.reach or fn in FINISH or fn in TASK or fn in CANCEL)
        return inline.inlined(self.F, body, keep_pred=keep, depth=2, budget=400)


def answers(acc):
    return acc[0] + max(acc[1] - acc[2], 0)


def short_site(o):
    fn, _, rest = o.partition(">")
    parts = fn.replace("<", "").replace(">", "").split("::")
    return "::".join(parts[-2:]) + ">" + rest


def run(F, chk):
    chk.explanation = (
        "Master side of the command protocol decided on MIR. (a) For every RequestType variant V (and the empty "
        "request) every path of Server::handle_client_request and its handlers is enumerated with the request "
        "discriminant fixed to V; the number of final answers (finish_ok/finish_ok_with_content/finish_failure) "
        "plus gathering tasks left registered (scatter/new_task minus cancel_task) must be exactly one. For every "
        "GatheringTask::on_finish impl every path sends exactly one final answer. (b) the timed_out operand of "
        "on_finish is not a constant and derives from the deadline test. (c) each on_finish's success answer is "
        "guarded by the gathered error count and the timeout flag. (d) scatter_on counts one expected response per "
        "in-flight insertion. (e) no explicit panic on client-supplied data in the handlers.")
    chk.not_decided = "arrival orders of worker responses, liveness under real clocks, content of the answers"
    chk.assumptions += [
        "A1: discriminant reads of RequestType inside the handlers are on the client's request (checked: rooted in a parameter)",
        "MessageClient::finish_* is the only way to send a final answer to a client (who-may-call checked on ClientSession::finish)",
        "closures passed to LocalKey::with run once; Option/Result combinators at most once",
    ]
    sp = MasterSpec(F)
    sp.prepare()
    eng = Engine(F, sp)
    variants = F.variants(RT)
    ra = chk.rule("R-C09-a", "T1", "exactly one final answer (or one registered gathering task) per client request, "
                  "for every verb and every handler path", floor=50)
    hcr = F.body(HCR)
    for V in variants + ["<None>"]:
        res = eng.explore(hcr, V)
        accs = sorted({a for a, _ in res})
        key = "verb %s" % V
        bad = [a for a in accs if answers(a) != 1]
        if V == "SubscribeEvents":
            ra.info(key, hcr.where(), "exempt: a subscription is a stream of Processing messages with no final answer by design; accs=%s" % [a[:3] for a in accs])
            continue
        if not bad:
            ra.ok(key, hcr.where(), "(finishes, tasks, cancels) per path: %s" % sorted({a[:3] for a in accs}))
        for a in bad:
            k2 = "%s|finish %d task %d cancel %d|sites %s" % (key, a[0], a[1], a[2], ",".join(short_site(o) for o in a[3]) or "-")
            ra.violation(k2, hcr.where(), "a handler path for %s ends with %d final answer(s) and %d task(s) still registered "
                         "(want exactly one in total); events at %s" % (V, a[0], max(a[1] - a[2], 0), list(a[3]) or "none"))
    # every on_finish impl: exactly one final answer on every path
    impls = F.impls_of(ONFINISH)
    ra.require(len(impls) >= 9, "only %d GatheringTask::on_finish impls found (floor 9)" % len(impls))
    for ip in impls:
        res = eng.explore(F.body(ip), None)
        accs = sorted({a for a, _ in res})
        key = "on_finish %s" % ip.split(" as ")[0].split("::")[-1]
        bad = [a for a in accs if answers(a) != 1]
        if not bad:
            ra.ok(key, F.body(ip).where(), "(finishes, tasks, cancels) per path: %s" % sorted({a[:3] for a in accs}))
        for a in bad:
            k2 = "%s|finish %d task %d cancel %d|sites %s" % (key, a[0], a[1], a[2], ",".join(short_site(o) for o in a[3]) or "-")
            ra.violation(k2, F.body(ip).where(), "a path of %s sends %d final answers and leaves %d task(s) registered; events at %s"
                         % (ip, a[0], max(a[1] - a[2], 0), list(a[3]) or "none"))
    ra.fn(*sorted(eng.functions))
    for n in sorted(set(eng.notes)):
        if n.startswith("BROKEN"):
            ra.broke(n)
    chk.extra["C09_states_explored"] = eng.states
    # ---------------- R-C09-b timed_out provenance --------------------------
    rb = chk.rule("R-C09-b", "T12", "the timed_out operand of GatheringTask::on_finish derives from the deadline test", floor=1)
    sites = F.call_sites(ONFINISH)
    rb.require(sites, "no call of GatheringTask::on_finish found")
    for b, bi, t in sites:
        rb.fn(b.path)
        key = "%s|on_finish.timed_out" % b.path
        a = t["args"][-1]
        if op_place(a) is None:
            rb.violation(key, b.where(bi), "timed_out passed to on_finish is the constant `%s`: a worker that stays silent past the deadline is reported like a completed task" % a.get("c"))
            continue
        sl = guards.slice_of_operand(b, a)
        if sl["params"] or sl["callees"] or sl["fields"]:
            rb.ok(key, b.where(bi), "timed_out operand depends on params %s" % sorted(sl["params"]))
        else:
            rb.violation(key, b.where(bi), "timed_out operand has no data dependency on the caller's state")
    # callers of handle_finishing_task: the flag they pass must come from a comparison with the task deadline
    # the task finisher is identified by what it does (it is the function that calls GatheringTask::on_finish), not by name
    finishers = sorted({(b.root if "{closure" in b.path else b.path) for b, _, _ in sites})
    if not rb.require(len(finishers) == 1, "expected exactly one function calling GatheringTask::on_finish, found %s" % finishers):
        return
    hft = finishers[0]
    for b, bi, t in F.call_sites(hft):
        rb.fn(b.path)
        key = "%s|task finisher.timed_out" % b.path
        a = t["args"][-1]
        cv = op_const(a)
        if cv is not None:
            rb.info(key, b.where(bi), "constant %s passed" % cv)
    # ---------------- R-C09-c success answers are guarded ---------------------
    rc = chk.rule("R-C09-c", "T5", "in each on_finish, finish_ok* is guarded by the gathered error count / the timeout flag", floor=9)
    EXEMPT = {
        "StatusTask": "exists to report non-answering workers inside an OK answer (content lists per-worker state)",
        "UpgradeWorkerTask": "worker upgrade is outside the verb classes the property quantifies over (mutating, query, load-state, stop)",
    }
    # tasks registered without a deadline can never observe timed_out (reported by R-C09-f instead)
    no_deadline = tasks_without_deadline(F)
    for ip in impls:
        b = F.body(ip)
        tname = ip.split(" as ")[0].split("::")[-1]
        rc.fn(ip)
        oks = [(bi, t) for bi, t in b.calls() if t.get("fn") in FIN_OK]
        # closures (e.g. LocalKey::with) are not expected to carry finish calls
        to_locals = {b.argc}   # on_finish(self, server, client, timed_out): the flag is the last parameter, whatever its name
        key = "on_finish %s|finish_ok guarded" % tname
        if not oks:
            rc.ok(key, b.where(), "no success answer in this task", nontrivial=False)
            continue
        # edges whose condition depends on the error tally or on timed_out
        def dep_err(bi2, truth, atom):
            sl = atom_slice(b, atom)
            return any(f in ("errors", "failures") for (_, f) in sl["fields"])
        def dep_to(bi2, truth, atom):
            sl = atom_slice(b, atom)
            return bool(sl["params"] & to_locals) or bool(sl["locals"] & to_locals)
        e_err = lib.edges_where(b, dep_err)
        e_to = lib.edges_where(b, dep_to)
        g_err = all(lib.guarded_by(b, bi, e_err) for bi, _ in oks) if e_err else False
        g_to = all(lib.guarded_by(b, bi, e_to) for bi, _ in oks) if e_to else False
        if tname in EXEMPT:
            rc.ok(key, b.where(), "exempt: " + EXEMPT[tname], nontrivial=False)
        elif g_err and (g_to or tname in no_deadline):
            rc.ok(key, b.where(), "every finish_ok* lies behind a branch on the error tally and %s" %
                  ("a branch on timed_out" if g_to else "the task has no deadline (see R-C09-f)"))
        else:
            miss = [n for n, g in (("the gathered error count", g_err), ("timed_out", g_to or tname in no_deadline)) if not g]
            rc.violation(key + "|missing " + "+".join(m.split()[-1] for m in miss), b.where(oks[0][0]),
                         "%s answers OK on a path that never tests %s" % (tname, " nor ".join(miss)))
    # path-sensitive half: no path that took an `errors > 0` / `timed_out` edge reaches a success answer
    for ip in impls:
        b = F.body(ip)
        tname = ip.split(" as ")[0].split("::")[-1]
        if tname in EXEMPT:
            continue
        to_locals = {b.argc}   # on_finish(self, server, client, timed_out): the flag is the last parameter, whatever its name
        edge_delta = {}
        for sb, f, t, atom in guards.bool_switches(b):
            if f == t:
                continue
            if atom[0] == "cmp":
                for tgt in (f, t):
                    rel = lib.relation_on_edge(b, sb, tgt)
                    if not rel:
                        continue
                    op, sa, sbb, _ = rel
                    a_err = any(fl in ("errors", "failures") for _, fl in sa["fields"])
                    b_err = any(fl in ("errors", "failures") for _, fl in sbb["fields"])
                    zero_b = any(str(c).startswith("0_") for c in sbb["consts"])
                    zero_a = any(str(c).startswith("0_") for c in sa["consts"])
                    if (a_err and zero_b and op in ("Gt", "Ne")) or (b_err and zero_a and op in ("Lt", "Ne")):
                        edge_delta[(sb, tgt)] = (0, 1, 0)
            elif atom[0] in ("place", "multi"):
                l = pl_local(atom[1]) if atom[0] == "place" else atom[1]
                sl = b.slice_back([l])
                if (sl["params"] | sl["locals"]) & to_locals and not sl["callees"]:
                    edge_delta[(sb, t)] = (0, 0, 1)

        class OS(Spec):
            nvec = 3

            def event(self, eng, body, bi, t, argv, val):
                if t.get("fn") in FIN_OK and body.path == b.path:
                    return [((1, 0, 0), None)]
                return None

            def edge_event(self, eng, body, bi, nb):
                if body.path == b.path:
                    return edge_delta.get((bi, nb))
                return None
        oe = Engine(F, OS())
        res = oe.explore(b, None)
        bad = sorted({v for v, _ in res if v[0] >= 1 and (v[1] >= 1 or (v[2] >= 1 and tname not in no_deadline))})
        key = "on_finish %s|finish_ok after failure edge" % tname
        if not edge_delta:
            rc.info(key, b.where(), "no branch on the error tally / timed_out in this task (see the structural check above)")
        elif bad:
            rc.violation(key, b.where(), "%s can answer OK on a path that took %s: (ok answers, error edges, timeout edges) = %s"
                         % (tname, " / ".join(x for x, k in (("an `errors > 0` edge", 1), ("a `timed_out` edge", 2)) if any(v[k] for v in bad)), bad))
        else:
            rc.ok(key, b.where(), "no path through an errors>0 / timed_out edge reaches finish_ok* (%d guard edges, %d path classes)" % (len(edge_delta), len(res)))
    # ---------------- R-C09-f every gathering task has a deadline --------------
    rf = chk.rule("R-C09-f", "T12", "every gathering task is registered with a finite timeout (a silent worker cannot hang the client forever)", floor=8)
    for name in TASK:
        for b, bi, t in F.call_sites(name):
            if b.path in TASK:
                continue
            rf.fn(b.path)
            ti = 2 if name.endswith("new_task") else 3
            a = t["args"][ti]
            var = timeout_variant(b, a)
            key = "%s|%s#timeout" % (b.path, lib.site_id(b, bi).split(">")[-1])
            if var == "None":
                rf.violation(key, b.where(bi), "task registered with Timeout::None: if a worker never answers, the client never gets a final answer")
            elif var in ("Default", "Custom"):
                rf.ok(key, b.where(bi), "Timeout::%s" % var)
            else:
                rf.broke("cannot resolve the Timeout operand at %s" % b.where(bi))
    # ---------------- R-C09-g a broadcast reaches every live worker ---------------
    # `OK only if every worker that was alive acknowledged`: the set a request is scattered to may leave out only workers
    # that are gone.  In scatter_on's worker filter the run state is compared with RunState::Stopped and nothing else
    # (a Stopping worker - the old half of an upgrade - still serves its sessions and must receive and acknowledge).
    rg = chk.rule("R-C09-g", "T12", "scatter_on leaves out stopped workers only", floor=1)
    import inline
    compared = {}
    for cp in F.family("sozu::command::server::Server::scatter_on")[1:]:
        cb = inline.threaded(F, inline.inlined(F, F.body(cp), policy="all", keep_pred=lambda fn: not fn.startswith(("sozu::", "<sozu::")), depth=2))
        for bi, t in cb.calls():
            fn = t.get("fn") or ""
            if not (fn.endswith("PartialEq::ne") or fn.endswith("PartialEq::eq")) or not (t.get("recv") or "").endswith("::RunState"):
                continue
            rg.fn(cp)
            for a in t["args"]:
                l = op_local(a)
                for _ in range(6):
                    d = cb.single_def(l) if l is not None else None
                    if not (d and d[2] == "assign"):
                        break
                    rv = d[3]
                    if rv["k"] == "use" and "promoted" in rv["a"]:
                        pv = F.promoted_value(rv["a"].get("pof", cb.path), rv["a"]["promoted"])
                        if pv and pv[0] in ("variant", "var"):
                            compared.setdefault(pv[2], []).append((cb, bi))
                        break
                    if rv["k"] in ("use", "cast") and op_local(rv["a"]) is not None:
                        l = op_local(rv["a"])
                        continue
                    if rv["k"] in ("ref", "raw") and isinstance(rv["pl"], int):
                        l = rv["pl"]
                        continue
                    if rv["k"] in ("ref", "raw") and isinstance(rv["pl"], dict) and rv["pl"]["p"] == ["*"]:
                        l = rv["pl"]["l"]
                        continue
                    if rv["k"] == "agg" and rv.get("ak") == "adt" and not rv["ops"]:
                        compared.setdefault(rv["var"], []).append((cb, bi))
                    break
    key = "scatter_on filter|run_state compared with"
    if not rg.require(compared, "scatter_on: no comparison of a worker's run_state found in its filter"):
        pass
    elif set(compared) <= {"Stopped"}:
        rg.ok(key, compared["Stopped"][0][0].where(compared["Stopped"][0][1]), "only RunState::Stopped excludes a worker from a scatter")
    else:
        extra = sorted(set(compared) - {"Stopped"})
        cb, bi = compared[extra[0]][0]
        rg.violation(key, cb.where(bi), "the scatter filter also leaves out workers in state %s: a live worker is neither sent the request nor counted in the expected responses, and the client is answered OK although that worker never acknowledged" % extra)
    # ---------------- R-C09-d scatter accounting -------------------------------
    rd = chk.rule("R-C09-d", "T3", "scatter_on: expected responses = in-flight insertions; finishing purges in_flight", floor=2)
    so = F.body("sozu::command::server::Server::scatter_on")
    rd.fn(so.path)
    ins = [bi for bi, t in so.calls() if callee_of(t).endswith("::insert") and touches_field(so, t, "in_flight")]
    inc = [(bi, t) for bi, t in so.calls() if callee_of(t).endswith("inc_expected_responses")]
    if rd.require(ins and inc, "scatter_on: in_flight.insert or inc_expected_responses not found"):
        # every return path after an insert passes through inc_expected_responses
        cut = so.reach_from(ins, removed=[bi for bi, _ in inc])
        rets = [r for r in so.returns() if r in cut]
        key = "%s|insert=>inc_expected_responses" % so.path
        if rets:
            rd.violation(key, so.where(ins[0]), "a path inserts into in_flight and returns without inc_expected_responses")
        else:
            # and the count passed depends on a counter incremented in the loop containing the insert
            sl = guards.slice_of_operand(so, inc[0][1]["args"][-1])
            # a counter: a local with an `x = x + 1` definition on a cycle (the per-worker loop)
            wc = {l for l, ds in so.defs().items() for d in ds
                  if d[2] == "assign" and d[3]["k"] == "bin" and d[3]["op"].startswith("Add") and d[0] in so.reach_from(so.succ()[d[0]])}
            if sl["locals"] & wc:
                rd.ok(key, so.where(inc[0][0]), "all paths from the in_flight insertion reach inc_expected_responses(worker_count)")
            else:
                rd.violation(key, so.where(inc[0][0]), "inc_expected_responses is not fed by the loop's worker_count")
    hb = F.body(hft)
    rd.fn(hb.path)
    onf = [bi for bi, t in hb.calls() if t.get("fn") == ONFINISH]
    purge = [bi for bi, t in hb.calls() if callee_of(t).endswith("::retain") and touches_field(hb, t, "in_flight")]
    key = "%s|on_finish=>in_flight.retain" % hb.path
    if rd.require(onf and purge, "%s: on_finish or in_flight.retain not found" % hft):
        cut = hb.reach_from(onf, removed=purge)
        if [r for r in hb.returns() if r in cut]:
            rd.violation(key, hb.where(onf[0]), "a path finishes a task without purging its in-flight entries")
        else:
            rd.ok(key, hb.where(purge[0]), "every path after on_finish purges in_flight")
    # ---------------- R-C09-e panics on client data ---------------------------
    re_ = chk.rule("R-C09-e", "T9", "no explicit panic on client-supplied data in the request handlers", floor=10)
    PANICS = ("core::panicking::panic", "core::panicking::panic_fmt", "std::rt::begin_panic", "core::panicking::panic_display",
              "core::option::Option::<T>::unwrap", "core::option::Option::<T>::expect",
              "core::result::Result::<T, E>::unwrap", "core::result::Result::<T, E>::expect",
              "core::option::expect_failed", "core::result::unwrap_failed", "core::panicking::unreachable_display")
    handlers = sorted(p for p in eng.functions if p.startswith("sozu::command::requests::") or p.startswith("sozu::command::upgrade::"))
    for hp in handlers:
        for fp in F.family(hp):
            b = F.body(fp)
            re_.fn(fp)
            n = 0
            for bi, t in b.calls():
                c = callee_of(t)
                if c in PANICS or c.startswith("core::panicking::"):
                    if "debug_assert" in t.get("m", ""):
                        continue   # debug-assertion configurations only
                    n += 1
                    key = "%s|%s#%d" % (fp, c.split("::")[-1], n)
                    m = t.get("m", "")
                    re_.violation(key, b.where(bi), "explicit panic site (%s%s) reachable from a client request handler"
                                  % (c, (" via " + m) if m else ""))
            if n == 0:
                re_.ok("%s|no explicit panic" % fp, b.where(), "", nontrivial=False)


def atom_slice(b, atom):
    empty = {"locals": set(), "callees": set(), "fields": set(), "consts": set(), "params": set()}
    if atom[0] == "cmp":
        a, c = guards.slice_of_operand(b, atom[2]), guards.slice_of_operand(b, atom[3])
        return {k: a[k] | c[k] for k in a}
    if atom[0] == "call":
        t = atom[2]
        out = {k: set(v) for k, v in empty.items()}
        out["callees"].add(callee_of(t))
        for a in t["args"]:
            s = guards.slice_of_operand(b, a)
            for k in out:
                out[k] |= s[k]
        return out
    if atom[0] == "place":
        p = atom[1]
        s = b.slice_back([pl_local(p)])
        for f in proj_fields(p):
            s["fields"].add((f[0], f[2]))
        return s
    if atom[0] == "multi":
        return b.slice_back([atom[1]])
    if atom[0] == "discr":
        s = b.slice_back([pl_local(atom[1])])
        for f in proj_fields(atom[1]):
            s["fields"].add((f[0], f[2]))
        return s
    return empty


def touches_field(b, t, field):
    for a in t["args"][:1]:
        sl = guards.slice_of_operand(b, a)
        if any(f == field for (_, f) in sl["fields"]):
            return True
    return False


def timeout_variant(b, a):
    l = op_local(a)
    seen = 0
    while l is not None and seen < 6:
        seen += 1
        ds = [d for d in b.defs().get(l, []) if d[2] == "assign"]
        if len(ds) != 1:
            return None
        rv = ds[0][3]
        if rv["k"] == "agg" and rv.get("adt", "").endswith("server::Timeout"):
            return rv["var"]
        if rv["k"] == "use":
            l = op_local(rv["a"])
        else:
            return None
    return None


def tasks_without_deadline(F):
    """names of task types boxed into a scatter/new_task call whose timeout is Timeout::None"""
    out = set()
    for name in TASK:
        for b, bi, t in F.call_sites(name):
            ti = 2 if name.endswith("new_task") else 3
            if b.path in TASK:
                continue
            if timeout_variant(b, t["args"][ti]) == "None":
                sl = guards.slice_of_operand(b, t["args"][ti - 1])
                for l in sl["locals"]:
                    ty = b.locals[l]
                    if ty.startswith("sozu::command::") and ty.endswith("Task"):
                        out.add(ty.split("::")[-1])
    return out
