"""C10 - worker hand-over and soft stop (structural clauses)."""
import alias, engine, guards, lib, cover
from engine import Engine, Spec
from mir import callee_of, op_place, op_local, pl_local, proj_fields

SCM = "sozu_command_lib::scm_socket::"
SERVER = "sozu_lib::server::Server"
H2 = "sozu_lib::protocol::mux::h2::ConnectionH2"
WRITE = "sozu_command_lib::channel::Channel::<Tx, Rx>::write_message"
# longest Display rendering of a SocketAddr: "[ffff:ffff:ffff:ffff:ffff:ffff:255.255.255.255%4294967295]:65535"
SOCKADDR_MAX = 58


def run(F, chk):
    chk.explanation = (
        "Structural necessary conditions of loss-free hand-over / soft stop decided on the compiled program: (a) the "
        "manifest buffer constant can hold MAX_FDS_OUT encoded socket addresses; (b) the listener sockets given back "
        "by the proxies stay alive (not dropped, moved or converted with into_raw_fd) until ScmSocket::send_listeners was "
        "called; (c) a draining HTTP/2 connection admits no new stream: every insertion into ConnectionH2.streams is "
        "behind the !drain.draining edge; (d) the four proxies' soft/hard stop agree on draining the listener table, "
        "taking each socket and deregistering it; (e) a soft stop is acknowledged exactly once, on the path of "
        "shut_down_sessions that reports completion.")
    chk.not_decided = ("that no listening address stops accepting at any instant (kernel state), that in-flight requests "
                       "complete, crash points of the old worker, FD inheritance semantics")
    # ---------------- R-C10-a --------------------------------------------------
    ra = chk.rule("R-C10-a", "T6", "MAX_BYTES_OUT can hold MAX_FDS_OUT encoded socket addresses", floor=1)
    mb, mf = F.const(SCM + "MAX_BYTES_OUT"), F.const(SCM + "MAX_FDS_OUT")
    need = 2 + mf * (2 + SOCKADDR_MAX)
    if mb >= need:
        ra.ok("MAX_BYTES_OUT>=manifest(MAX_FDS_OUT)", "command/src/scm_socket.rs", "%d >= 2 + %d*(2+%d) = %d" % (mb, mf, SOCKADDR_MAX, need))
    else:
        ra.violation("MAX_BYTES_OUT>=manifest(MAX_FDS_OUT)", "command/src/scm_socket.rs",
                     "MAX_BYTES_OUT=%d < %d bytes needed for a manifest of MAX_FDS_OUT=%d socket addresses (%d bytes each): hand-over of that many listeners delivers a truncated manifest" % (mb, need, mf, 2 + SOCKADDR_MAX))
    # the receiver really uses these constants for its buffers
    rl = F.body(SCM + "ScmSocket::receive_listeners")
    consts = set()
    for bi, si, s in rl.stmts():
        rv = s.get("rv")
        if rv:
            for o in ([rv.get("a")] if rv.get("a") else []) + rv.get("ops", []):
                if o and "constdef" in o:
                    consts.add(o["constdef"])
    for bi, t in rl.calls():
        for a in t["args"]:
            if "constdef" in a:
                consts.add(a["constdef"])
    ra.require(SCM + "MAX_BYTES_OUT" in consts, "receive_listeners no longer sizes its buffer with MAX_BYTES_OUT")
    # ---------------- R-C10-b --------------------------------------------------
    rb = chk.rule("R-C10-b", "T3", "listener sockets outlive the send_listeners call", floor=4)
    rs = F.body(SERVER + "::return_listen_sockets")
    rb.fn(rs.path)
    send = [bi for bi, t in rs.calls() if callee_of(t) == SCM + "ScmSocket::send_listeners"]
    gives = [(bi, t) for bi, t in rs.calls() if callee_of(t).endswith("::give_back_listeners")]
    if rb.require(len(send) == 1 and len(gives) >= 4, "return_listen_sockets: send_listeners / give_back_listeners calls not found"):
        sb = send[0]
        can_reach_send = {x for x in rs.reachable() if sb in rs.reach_from([x])}
        for bi, t in gives:
            L = t["dest"]
            key = "%s|%s" % (rs.path, callee_of(t).split("::")[-2] + "::give_back_listeners")
            bad = None
            region = rs.reach_from([t["to"]]) & can_reach_send - {sb}
            for x in region:
                blk = rs.blocks[x]
                tt = blk["t"]
                if tt["k"] == "drop" and pl_local(tt["pl"]) == L and not isinstance(tt["pl"], dict):
                    bad = ("dropped", x)
                if tt["k"] == "call":
                    for a in tt["args"]:
                        if "mv" in a and a["mv"] == L:
                            bad = ("moved into %s" % callee_of(tt).split("::")[-1], x)
                for s in blk["s"]:
                    rv = s.get("rv")
                    if rv and rv["k"] == "use" and rv["a"].get("mv") == L:
                        bad = ("moved", x)
            if bad:
                rb.violation(key, rs.where(bad[1]), "the listener vector is %s before ScmSocket::send_listeners: its sockets are closed before their FDs are passed" % bad[0])
            else:
                rb.ok(key, rs.where(bi), "alive on every path up to send_listeners")
        fam = F.family(rs.path)
        into = [p for p in fam for bi, t in F.body(p).calls() if t.get("fn", "").endswith("IntoRawFd::into_raw_fd")]
        if into:
            rb.violation("%s|into_raw_fd" % rs.path, rs.where(), "into_raw_fd used while collecting the FDs (ownership released before sending)")
    # ---------------- R-C10-c --------------------------------------------------
    rc = chk.rule("R-C10-c", "T5", "no new stream on a draining H2 connection", floor=2)
    ins = [(b, bi, c) for (b, bi, c) in lib.field_mut_calls(F, H2, "streams") if c.endswith("::insert") or c.endswith("::entry")]
    rc.require(len(ins) >= 2, "fewer than 2 insertions into ConnectionH2.streams found")
    for b, bi, c in ins:
        rc.fn(b.path)
        key = "%s|streams.insert" % b.path
        def pred(sb, truth, atom):
            return atom[0] == "place" and any(f == "draining" for _, _, f in proj_fields(atom[1])) and truth is False
        edges = lib.edges_where(b, pred)
        if edges and lib.guarded_by(b, bi, edges):
            rc.ok(key, b.where(bi), "behind the !drain.draining edge %s" % edges)
        else:
            rc.violation(key, b.where(bi), "a stream is inserted into ConnectionH2.streams on a path that does not pass the `drain.draining == false` edge")
    # ---------------- R-C10-d --------------------------------------------------
    rd = chk.rule("R-C10-d", "T8", "stop paths of the four proxies agree: drain listeners, take socket, deregister", floor=8)
    sites = {
        "http soft": ["sozu_lib::http::HttpProxy::soft_stop"], "http hard": ["sozu_lib::http::HttpProxy::hard_stop"],
        "https soft": ["sozu_lib::https::HttpsProxy::soft_stop"], "https hard": ["sozu_lib::https::HttpsProxy::hard_stop"],
        "tcp": ["<sozu_lib::tcp::TcpProxy as sozu_lib::ProxyConfiguration>::notify"],
        "udp": ["sozu_lib::udp::UdpProxy::notify"],
    }
    for name, roots in sites.items():
        callees = {}
        for r in roots:
            for p in F.family(r):
                for bi, t in F.body(p).calls():
                    callees[callee_of(t)] = callees.get(callee_of(t), 0) + 1
        need = {"drain listeners": any(c.endswith("HashMap::<K, V, S, A>::drain") for c in callees),
                "take socket": any(c == "core::option::Option::<T>::take" for c in callees),
                "deregister": any(c.endswith("Registry::deregister") for c in callees)}
        mult = 2 if name in ("tcp", "udp") else 1   # both the SoftStop and the HardStop arm live in notify
        for what, ok in need.items():
            key = "%s|%s" % (name, what)
            cnt = sum(v for c, v in callees.items() if (what == "drain listeners" and c.endswith("HashMap::<K, V, S, A>::drain")) or
                      (what == "take socket" and c == "core::option::Option::<T>::take") or (what == "deregister" and c.endswith("Registry::deregister")))
            if ok and cnt >= mult:
                rd.ok(key, "", "%d site(s)" % cnt, nontrivial=False)
            else:
                rd.violation(key, F.body(roots[0]).where(), "the %s stop path does not %s (%d site(s), %d expected): its sibling proxies do" % (name, what, cnt, mult))
        rd.fn(*roots)
    # ---------------- R-C10-e --------------------------------------------------
    re_ = chk.rule("R-C10-e", "T1", "soft stop is acknowledged exactly once, when shut_down_sessions reports completion", floor=2)
    sd = F.body(SERVER + "::shut_down_sessions")
    re_.fn(sd.path)

    class S(Spec):
        def event(self, eng, body, bi, t, argv, val):
            if t.get("fn") == WRITE:
                return [((1,), None)]
            return None

        def view(self, eng, body):
            import inline      # private helpers of shut_down_sessions (the ack, the progress report, ..) are part of it
            return inline.inlined(F, body, keep_pred=lambda fn: fn == WRITE, depth=2, budget=400)
    e = Engine(F, S())
    sd = e.spec.view(e, sd)
    res = e.explore(sd, None)
    by_ret = {}
    for (vec, rv) in res:
        by_ret.setdefault(rv, set()).add(vec[0])
    t_counts, f_counts = by_ret.get(1, set()), by_ret.get(0, set())
    if t_counts == {1} and f_counts <= {0} and None not in by_ret:
        re_.ok("%s|ack on completion" % sd.path, sd.where(), "returns true with exactly one write_message; returns false with none")
    else:
        re_.violation("%s|ack on completion" % sd.path, sd.where(), "write_message count by return value: %s (want true->{1}, false->{0})" % {k: sorted(v) for k, v in by_ret.items()})
    # the id written comes from shutting_down.take(); nobody else takes it
    takers = [(b.path, c) for (b, bi, c) in lib.field_mut_calls(F, SERVER, "shutting_down") if c.endswith("::take")]
    folded, _ = lib.fold_private_writers(F, {p: {"take"} for p, _ in takers}, lambda fn: fn == sd.path)
    takers = [(p, "take") for p in folded]
    if [p for p, c in takers if p != sd.path]:
        re_.violation("Server.shutting_down takers", "", "shutting_down is taken outside shut_down_sessions: %s" % takers)
    elif takers:
        re_.ok("Server.shutting_down takers", sd.where(), "only shut_down_sessions takes the pending SoftStop id", nontrivial=False)
    else:
        re_.broke("no take() of Server.shutting_down found")
    fd_order_rule(F, chk)


def fd_order_rule(F, chk):
    """R-C10-f: listener hand-over ships one flat FD array plus per-class address lists; the receiver pairs address i of a
    class with the FD found at the class's offset.  Necessary condition of `every listener ends up bound to the address
    it had`: the order in which send_listeners appends the classes' descriptors equals the order in which
    receive_listeners cuts the array into per-class windows."""
    r = chk.rule("R-C10-f", "T7", "sender and receiver agree on the order of listener classes in the FD array", floor=1)
    SCM = "sozu_command_lib::scm_socket::ScmSocket"
    LST = "sozu_command_lib::scm_socket::Listeners"
    LC = "sozu_command_lib::proto::command::ListenersCount"
    classes = [f["name"] for f in F.fields(LST)]
    if not r.require(F.has(SCM + "::send_listeners") and F.has(SCM + "::receive_listeners"), "send_listeners / receive_listeners not found"):
        return
    sb = lib.flat(F, F.body(SCM + "::send_listeners"), keep=("::send_msg_and_fds",))
    rb = lib.flat(F, F.body(SCM + "::receive_listeners"), keep=("::receive_msg_and_fds",))
    r.fn(sb.path, rb.path)
    dom_s, dom_r = sb.dominators(), rb.dominators()
    # ---- sender: reads of Listeners.<class> that flow into the FD argument of send_msg_and_fds
    sends = [(bi, t) for bi, t in sb.calls() if callee_of(t).endswith("::send_msg_and_fds")]
    if not r.require(len(sends) == 1, "send_listeners: send_msg_and_fds call not found"):
        return
    fdarg = sends[0][1]["args"][-1]
    fd_slice = guards.slice_of_operand(sb, fdarg)["locals"]
    reads = []
    for bi, si, st in sb.stmts():
        rv = st.get("rv")
        if not rv or not isinstance(st.get("lhs"), int):
            continue
        pl = rv.get("pl") if rv["k"] in ("ref", "raw") else (op_place(rv["a"]) if rv["k"] == "use" else None)
        if pl is None or isinstance(pl, int):
            continue
        fs = [f for a, _, f in proj_fields(pl) if a == LST]
        if fs and st["lhs"] in fd_slice:
            reads.append((len(dom_s.get(bi, ())), si, fs[-1], st["lhs"], bi))
    # several reads feeding one array literal: the literal's element order is the order
    order_s = []
    arrays = [(bi, si, st["rv"]) for bi, si, st in sb.stmts() if st.get("rv", {}).get("k") == "agg" and st["rv"].get("ak") == "array"]
    used = set()
    for bi, si, rv in arrays:
        ls = [op_local(o) for o in rv["ops"]]
        seq = []
        for l in ls:
            hit = [x for x in reads if x[3] == l or (l is not None and x[3] in sb.slice_back([l])["locals"])]
            if hit:
                seq.append(hit[0][2]); used.add(hit[0][3])
        if len(seq) >= 2:
            order_s += seq
    for d, si, f, l, bi in sorted(x for x in reads if x[3] not in used):
        order_s.append(f)
    order_s = [f for i, f in enumerate(order_s) if i == 0 or f != order_s[i - 1]]
    # ---- receiver: windows received_fds[index .. index + len]: the class is the one whose count `len` was read from
    order_r = []
    for bi, si, st in sorted(((bi, si, st) for bi, si, st in rb.stmts()), key=lambda x: (len(dom_r.get(x[0], ())), x[1])):
        rv = st.get("rv")
        if not (rv and rv["k"] == "agg" and rv.get("adt") == "core::ops::range::Range" and len(rv["ops"]) == 2):
            continue
        e = op_local(rv["ops"][1])
        d = rb.single_def(e) if e is not None else None
        if not (d and d[2] == "assign" and d[3]["k"] == "bin" and d[3]["op"].startswith("Add")):
            continue
        cls = set()
        for o in (d[3]["a"], d[3]["b"]):
            l = op_local(o)
            for _ in range(6):           # look through plain copies
                dd = rb.single_def(l) if l is not None else None
                if dd and dd[2] == "assign" and dd[3]["k"] == "use" and op_local(dd[3]["a"]) is not None:
                    l = op_local(dd[3]["a"])
                else:
                    break
            if l is None or rb.single_def(l) is None:
                continue                 # the running offset is reassigned; the window length is bound once
            cls |= {f for a, f in rb.slice_back([l])["fields"] if a == LC}
        if len(cls) == 1:
            order_r.append(cls.pop())
    if set(order_r) != set(classes):
        # the other idiom: one FD iterator consumed class by class: `addresses.zip(fds)`; the class order is the order of
        # the zip calls whose address side was parsed from exactly one list of the manifest
        order_r = []
        zips = [(bi, t) for bi, t in rb.calls() if callee_of(t).endswith("Iterator::zip") or (t.get("fn") or "").endswith("Iterator::zip")]
        for bi, t in sorted(zips, key=lambda x: len(dom_r.get(x[0], ()))):
            per_arg = [{f for ad, f in guards.slice_of_operand(rb, a)["fields"] if ad == LC} for a in t["args"]]
            single = [c for c in per_arg if len(c) == 1]      # the address side; the FD side depends on every count
            if len(single) == 1:
                order_r.append(next(iter(single[0])))
        order_r = [f for i, f in enumerate(order_r) if i == 0 or f != order_r[i - 1]]
    key = "FD array class order"
    if not r.require(set(order_s) == set(classes) and set(order_r) == set(classes),
                     "could not recover the class order (sender %s, receiver %s, classes %s)" % (order_s, order_r, classes)):
        return
    if order_s == order_r:
        r.ok(key, sb.where(sends[0][0]), "sender appends %s, receiver cuts windows %s" % (order_s, order_r))
    else:
        r.violation(key, sb.where(sends[0][0]), "send_listeners appends the descriptors in the order %s but receive_listeners cuts the FD array in the order %s: after a hand-over the sockets of these classes are paired with each other's addresses" % (order_s, order_r))


def run_thorough(F, chk):
    import witness
    res = witness.run()
    r = chk.rule("R-C10-a-w", "T6", "const assertion in the witness crate: MAX_BYTES_OUT >= 2 + MAX_FDS_OUT*(2+58)", floor=1)
    r.only_cfgs = {"Q"}
    if res.get("__build__"):
        r.violation("witness const assertion", "witness/src/lib.rs", "the witness crate no longer builds: " + res["__build__"][-300:])
    else:
        r.ok("witness const assertion", "witness/src/lib.rs", "crate with the const assertion compiled")
