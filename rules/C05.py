import re
"""C05 - a configuration survives every save / replay path (structural clauses)."""
import cover, srcattrs, t2, lib
from mir import callee_of
from facts import Broken

STATE = "sozu_command_lib::state::ConfigState"
RT = "sozu_command_lib::proto::command::request::RequestType"
PC = "sozu_command_lib::proto::command::"
CENSUS = {"request_counts"}

APPLIERS = {
    "UpdateHttpListenerConfig": (STATE + "::update_http_listener", "sozu_lib::http::HttpListener::update_config"),
    "UpdateHttpsListenerConfig": (STATE + "::update_https_listener", "sozu_lib::https::HttpsListener::update_config"),
    "UpdateTcpListenerConfig": (STATE + "::update_tcp_listener", "sozu_lib::tcp::TcpListener::update_config"),
    "UpdateUdpListenerConfig": (STATE + "::update_udp_listener", "sozu_lib::udp::UdpListener::update_config"),
}


def dispatch_arms(F):
    """variant -> handler called in that arm of ConfigState::dispatch"""
    d = F.body(STATE + "::dispatch")
    discr = {v: k for k, v in F.variant_discr(RT).items()}
    arms = {}
    for bi in d.reachable():
        t = d.blocks[bi]["t"]
        if t["k"] != "switch":
            continue
        l = t["op"].get("mv", t["op"].get("cp"))
        if not isinstance(l, int):
            continue
        dd = d.single_def(l)
        if not (dd and dd[2] == "assign" and dd[3]["k"] == "discr" and dd[3]["adt"] == RT):
            continue
        for v, tg in t["ts"]:
            if tg == t["else"]:
                continue
            # first ConfigState method called from the arm's target (straight line)
            b = tg
            for _ in range(6):
                tt = d.blocks[b]["t"]
                if tt["k"] == "call" and callee_of(tt).startswith(STATE + "::"):
                    arms[discr[int(v)]] = callee_of(tt)
                    break
                if tt["k"] in ("goto", "call", "drop") and tt.get("to") is not None:
                    b = tt["to"]
                else:
                    break
    return arms


def run(F, chk):
    chk.explanation = (
        "Structural necessary conditions of the save/replay round trip decided on the compiled program: the request "
        "generators read every configuration component of ConfigState; they construct a creating verb for every "
        "state-creating arm of dispatch; every serde field that is skipped when default is also defaulted when absent; "
        "and for every listener patch type the master's applier, the worker's applier and the message definition agree "
        "on the set of fields (a patch field the master does not record is lost on the next replay/bootstrap).")
    chk.not_decided = ("value equality of the replayed state, independence from map iteration order, the byte-level "
                       "encodings (protobuf/JSON) themselves")
    chk.assumptions += ["ConfigState.request_counts is a census, not configuration",
                        "derive-helper attributes are read from the source lines above the field position reported by rustc"]
    # ---------------- R-C05-a ------------------------------------------------
    ra = chk.rule("R-C05-a", "T7a", "the request generators read every field of ConfigState (minus the census)", floor=22)
    fields = [f["name"] for f in F.fields(STATE)]
    for gen in ("generate_requests", "produce_initial_state"):
        reads, fns = cover.family_field_reads(F, STATE + "::" + gen, STATE, depth=3)
        ra.fn(*fns)
        for f in fields:
            if f in CENSUS:
                continue
            key = "%s|%s" % (gen, f)
            if f in reads:
                ra.ok(key, F.body(STATE + "::" + gen).where(), "read", nontrivial=False)
            else:
                ra.violation(key, F.body(STATE + "::" + gen).where(), "ConfigState.%s is never read by %s: that component cannot survive a save/replay" % (f, gen))
    # ---------------- R-C05-b ------------------------------------------------
    rb = chk.rule("R-C05-b", "T7b", "the generator constructs a creating verb for every state-creating arm of dispatch", floor=12)
    arms = dispatch_arms(F)
    rb.require(len(arms) >= 25, "only %d explicit arms resolved in ConfigState::dispatch" % len(arms))
    gen_fns = cover.reach_functions(F, STATE + "::generate_requests", depth=3)
    built = cover.variants_constructed(F, gen_fns, RT)
    creating = {}
    for V, h in sorted(arms.items()):
        b = F.body(h)
        a = t2.T2(F, b, self_arg=1, census={(STATE, "request_counts")})
        ev = a.events()
        # an insertion directly into one of ConfigState's own collections (not into a field of an entry)
        ins = [e for e in ev if e.get("callee") and "." not in e["field"] and
               t2.last(e["callee"]) in ("insert", "push", "or_default", "or_insert", "or_insert_with", "extend", "push_back")]
        flips = [e for e in ev if "closure mutating" in e["what"] and V.startswith("Activate")]
        if ins or flips:
            creating[V] = h
    rb.fn(*[h for h in creating.values()])
    rb.require(len(creating) >= 12, "only %d state-creating dispatch arms found" % len(creating))
    PATCH_OR_REPLACE = {"ReplaceCertificate": "AddCertificate"}
    for V, h in sorted(creating.items()):
        want = PATCH_OR_REPLACE.get(V, V)
        key = "verb %s" % V
        if want in built:
            rb.ok(key, F.body(h).where(), "constructed by the generator (as %s)" % want, nontrivial=False)
        else:
            rb.violation(key, F.body(STATE + "::generate_requests").where(),
                         "dispatch arm %s (%s) creates state, but generate_requests never constructs RequestType::%s: objects created that way are not replayed" % (V, h.split("::")[-1], want))
    # ---------------- R-C05-c ------------------------------------------------
    rc = chk.rule("R-C05-c", "T7c", "serde: skip_serializing_if implies default (or Option)", floor=14)
    n_adts = 0
    for path, adt in sorted(F.adts.items()):
        if not (path.startswith("sozu_command_lib::") or path.startswith("sozu::")):
            continue
        if adt["kind"] != "struct":
            continue
        n_adts += 1
        cont = srcattrs.attrs_above(adt["file"], adt["line"]) or []
        cont_default = any("serde(" in a and "default" in a for a in cont)
        for f in adt["variants"][0]["fields"]:
            at = srcattrs.attrs_above(f["file"], f["line"])
            if at is None:
                continue
            sk = [a for a in at if "skip_serializing_if" in a or ("serde(" in a and "skip_serializing" in a)]
            if not sk:
                continue
            has_default = any("serde(" in a and "default" in a for a in at) or cont_default
            is_opt = f["ty"].startswith("core::option::Option<")
            key = "%s.%s" % (path, f["name"])
            # a hand-written skip predicate on a struct value decides `this is the default, omit it`: it can only be
            # right if it looks at every field of the value (otherwise values differing in the ignored field are
            # written as nothing and read back as the default)
            m = re.search(r'skip_serializing_if\s*=\s*"([^"]+)"', sk[0])
            pred = m.group(1) if m else ""
            if pred and "::" not in pred:
                cands = [q for q in F.paths() if q.endswith("::" + pred) and "{closure" not in q and q.rsplit("::", 1)[0] == path.rsplit("::", 1)[0]]
                if cands:
                    pb = F.body(cands[0])
                    rc.fn(cands[0])
                    pty = pb.locals[1].lstrip("&") if pb.argc >= 1 else ""
                    if pty in F.adts and F.adts[pty]["kind"] == "struct":
                        want = {x["name"] for x in F.fields(pty)}
                        got, _ = cover.family_field_reads(F, cands[0], pty, depth=1)
                        whole = any((t.get("fn") or "").endswith(("PartialEq::eq", "PartialEq::ne")) and (t.get("recv") or "").lstrip("&") == pty for _, t in pb.calls())
                        k2 = "%s|predicate %s reads every field of %s" % (key, pred, pty.rsplit("::", 1)[-1])
                        if whole or want <= set(got):
                            rc.ok(k2, pb.where(), "reads %s" % (sorted(got) if not whole else "the whole value"))
                        else:
                            rc.violation(k2, pb.where(), "the skip predicate %s ignores field(s) %s of %s: a value that differs from the default only there is omitted when saved and comes back as the default" % (pred, sorted(want - set(got)), pty.rsplit("::", 1)[-1]))
            if has_default or is_opt:
                rc.ok(key, "%s:%d" % (f["file"], f["line"]), "skip_serializing_if paired with %s" % ("default" if has_default else "Option"), nontrivial=False)
            else:
                rc.violation(key, "%s:%d" % (f["file"], f["line"]), "field is skipped when serialised (%s) but has no #[serde(default)] and is not an Option: a saved state omitting it fails to load" % sk[0])
    chk.extra["C05_structs_scanned"] = n_adts
    converter_rule(F, chk)
    replay_acceptance_rule(F, chk)
    # ---------------- R-C05-d ------------------------------------------------
    rd = chk.rule("R-C05-d", "T8", "listener patch types: master applier, worker applier and message agree on the field set", floor=60)
    for sname, (mfn, wfn) in sorted(APPLIERS.items()):
        adt = PC + sname
        allf = [f["name"] for f in F.fields(adt)]
        mr, mf = cover.family_field_reads(F, mfn, adt, depth=2)
        wr, wf = cover.family_field_reads(F, wfn, adt, depth=2)
        rd.fn(mfn, wfn)
        for f in allf:
            if f == "address":
                continue
            key = "%s.%s" % (sname, f)
            miss = [n for n, r in (("master " + mfn.split("::")[-1], mr), ("worker " + wfn.split("::")[-2] + "::update_config", wr)) if f not in r]
            if not miss:
                rd.ok(key, F.body(mfn).where(), "applied by master and worker", nontrivial=False)
            else:
                rd.violation(key + "|not applied by " + "+".join(m.split()[0] for m in miss), F.body(mfn if "master" in miss[0] else wfn).where(),
                             "patch field %s.%s is not applied by %s: the two views diverge and the value is lost on the next replay" % (sname, f, " nor ".join(miss)))


# ---------------------------------------------------------------------------------------------------------
PAIRS = [("sozu_command_lib::response::HttpFrontend", PC + "RequestHttpFrontend"),
         ("sozu_command_lib::response::TcpFrontend", PC + "RequestTcpFrontend"),
         ("sozu_command_lib::response::UdpFrontend", PC + "RequestUdpFrontend"),
         ("sozu_command_lib::response::Backend", PC + "AddBackend")]
IDENTITY = ("::clone", "::to_owned", "::into", "::from", "::try_from", "::map", "::map_err", "::unwrap_or_default",
            "::unwrap_or", "::ok_or", "::ok_or_else", "::ok", "::branch", "::from_residual", "::to_string", "::as_ref",
            "::as_deref", "::cloned", "::copied", "::unwrap_or_else", "::and_then", "::deref", "::borrow")


def converter_rule(F, chk):
    """R-C05-e: the stored <-> request converters are field-wise identity conversions. State keys are computed from
    the *request* (`front.to_string()`), the stored value from the converted struct, and replay re-derives the request
    from the stored value: any transformation applied to a field on the way (case folding, trimming, arithmetic) makes
    key and value - or original and replayed entry - disagree."""
    r = chk.rule("R-C05-e", "T8", "stored <-> request converters are field-wise identity conversions", floor=50)
    import guards as g
    for stored, req in PAIRS:
        for target, source in ((stored, req), (req, stored)):
            for b in F.grep('"adt":"%s"' % target):
                if b.derived or not b.path.startswith(("sozu_command_lib::", "<sozu_command_lib::")):
                    continue
                # functions taking the sibling type (by value, by ref, or as self)
                if not any(source.split("::")[-1] in b.locals[a] and source.rsplit("::", 1)[0].split("::")[-1] in b.locals[a]
                           for a in range(1, b.argc + 1)):
                    continue
                for bi, si, s in b.stmts():
                    rv = s.get("rv")
                    if not (rv and rv["k"] == "agg" and rv.get("ak") == "adt" and rv["adt"] == target):
                        continue
                    r.fn(b.path)
                    for fname, o in zip(rv["fn"], rv["ops"]):
                        sl = g.slice_of_operand(b, o)
                        bad = sorted(c for c in sl["callees"] if not c.endswith(IDENTITY))
                        # closures feeding the value
                        for l in sl["locals"]:
                            for d in b.defs().get(l, []):
                                if d[2] == "assign" and d[3]["k"] == "agg" and d[3].get("ak") == "closure" and F.has(d[3]["clo"]):
                                    cb = F.body(d[3]["clo"])
                                    bad += sorted(callee_of(t) for _, t in cb.calls() if not callee_of(t).endswith(IDENTITY)
                                                  and not t.get("x"))
                        key = "%s|%s.%s" % (b.path, target.split("::")[-1], fname)
                        if bad:
                            r.violation(key, b.where(bi, si), "field %s of %s is not a plain copy of the source field: it passes through %s - the state key (computed from the request) and the stored/replayed value can disagree" % (fname, target.split("::")[-1], [x.split("::")[-1] for x in bad][:4]))
                        else:
                            r.ok(key, b.where(bi, si), "identity conversion", nontrivial=False)


def replay_acceptance_rule(F, chk):
    """R-C05-f: a saved or transferred state is replayed through the CREATING verbs (Add*Listener carries the listener as it
    is now).  Replay can only `never fail` if the creating verb accepts every value that another verb was allowed to
    store: whatever field add_<kind>_listener rejects (StateError::InvalidValue{field}) must be rejected for the same field
    by update_<kind>_listener, the only other writer of that field."""
    r = chk.rule("R-C05-f", "T8", "the creating verb of a listener rejects nothing its patch verb lets in", floor=4)
    def rejected(fn):
        out = set()
        for p in cover.reach_functions(F, fn, depth=2, prefixes=("sozu_command_lib::",)):
            b = F.body(p)
            for bi, si, st in b.stmts():
                rv = st.get("rv")
                if rv and rv["k"] == "agg" and rv.get("var") == "InvalidValue" and rv.get("adt", "").endswith("StateError") and rv["ops"]:
                    out.add(str(rv["ops"][0].get("c", "?")).strip('"').replace("const ", "").strip('"'))
        return out
    for kind in ("http", "https", "tcp", "udp"):
        a, u = STATE + "::add_%s_listener" % kind, STATE + "::update_%s_listener" % kind
        if not r.require(F.has(a) and F.has(u), "add_%s_listener / update_%s_listener not found" % (kind, kind)):
            continue
        r.fn(a, u)
        ra_, ru_ = rejected(a), rejected(u)
        patch_fields = set()
        ub = F.body(u)
        pty = ub.locals[2].lstrip("&") if ub.argc >= 2 else ""
        if pty in F.adts:
            patch_fields = {x["name"] for x in F.fields(pty)}
        only_add = sorted(f for f in ra_ - ru_ if not patch_fields or f in patch_fields)
        key = "%s listener|add rejects only what update rejects" % kind
        if only_add:
            r.violation(key, F.body(a).where(), "add_%s_listener rejects values of %s that update_%s_listener still stores: a listener patched to such a value is saved as an Add%sListener that the replay refuses, and the listener (and its activation) is lost on reload / worker bootstrap / upgrade" % (kind, only_add, kind, kind.capitalize()))
        else:
            r.ok(key, F.body(a).where(), "add rejects %s; update rejects %d field(s)" % (sorted(ra_) or "nothing", len(ru_)))
