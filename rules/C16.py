"""C16 - resources return to baseline and admission limits hold (structural clauses)."""
import alias, bounds, cover, guards, lib
from mir import callee_of, op_place, op_local, op_const, pl_local, proj_fields
from C12 import call_atom_edges

SM = "sozu_lib::server::SessionManager"
SERVER = "sozu_lib::server::Server"
STREAM = "sozu_lib::protocol::mux::stream::Stream"
ACTIVE_REQ = "sozu_lib::metrics::names::http::ACTIVE_REQUESTS"


def gauge_sites(F, b, key_const):
    """gauge_add!(KEY, v) sites in body b: [(bb, value)]"""
    out = []
    for bi, t in b.calls():
        if "gauge_add" not in t.get("m", "") or not t.get("fn", "").endswith("LocalKey::<T>::with"):
            continue
        cl = op_local(t["args"][1])
        clo = None
        for d in b.defs().get(cl, []):
            if d[2] == "assign" and d[3]["k"] == "agg" and d[3].get("ak") == "closure":
                clo = d[3]
        if clo is None or not F.has(clo["clo"]):
            continue
        cb = F.body(clo["clo"])
        uses_key = any(a.get("constdef") == key_const for _, tt in cb.calls() for a in tt["args"])
        if not uses_key:
            continue
        val = None
        for o in clo["ops"]:
            sl = guards.slice_of_operand(b, o)
            for c in sl["consts"]:
                if c and str(c).endswith("_i64"):
                    val = int(str(c).replace("_i64", ""))
        out.append((bi, val))
    return out


def run(F, chk):
    chk.explanation = (
        "Structural necessary conditions of 'resources return to baseline, admission limits hold' decided on MIR: (a) a "
        "session is counted (SessionManager::incr) only on paths that passed a successful check_limits(), incr has one "
        "caller and nb_connections two writers; (b) a session removed from the slab by token is closed and un-counted on "
        "every path, and decr has no other caller; (c) every session close path releases the per-(cluster, ip) tracking, "
        "and tracking only happens past the at-limit test; (d) buffers return by RAII: Checkout implements Drop and no "
        "forget/leak primitive is instantiated on a type holding a Checkout, timer or session; (e) the http.active_requests "
        "gauge is decremented only under request_counted (then cleared) and every increment sets the flag on all paths.")
    chk.not_decided = "that the counts actually return to baseline over a history; timer behaviour; eviction policy"
    # ---------------- R-C16-a ------------------------------------------------
    ra = chk.rule("R-C16-a", "T3+T4", "admission only after a successful limit check", floor=3)
    # the admission block may live in a private helper of create_sessions (`fn admit_or_make_room(&mut self) -> bool`)
    cs = lib.flat(F, F.body(SERVER + "::create_sessions"), keep=(SM + "::incr", SM + "::check_limits"))
    ra.fn(cs.path)
    incr_sites = [bi for bi, t in cs.calls() if callee_of(t) == SM + "::incr"]
    pops = [bi for bi, t in cs.calls() if callee_of(t).endswith("VecDeque::<T, A>::pop_back")]
    ok_edges = call_atom_edges(cs, "SessionManager::check_limits", True)
    if ra.require(incr_sites and pops and ok_edges, "create_sessions: incr / pop_back / check_limits not found"):
        start = cs.blocks[pops[0]]["t"]["to"]
        # remove the edges on which check_limits() returned true: incr must become unreachable... no:
        # incr must be reachable ONLY through such an edge => removing them makes it unreachable
        # (the first check's false edge leads to the eviction path and a second check)
        fal = call_atom_edges(cs, "SessionManager::check_limits", False)
        # paths avoiding every true-edge: from start, never taking a true edge
        reach = guards.reach_without_edges(cs, ok_edges, start=start)
        key = "%s|incr behind check_limits" % cs.path
        if any(x in reach for x in incr_sites):
            ra.violation(key, cs.where(incr_sites[0]), "SessionManager::incr is reachable from the accept loop without any check_limits() having returned true")
        else:
            ra.ok(key, cs.where(incr_sites[0]), "every path from pop_back to incr takes a check_limits()==true edge %s" % ok_edges)
    callers = {lib.owner_of(F, b, stop_at=(cs.path,)).path for b, bi, t in F.call_sites(SM + "::incr")}
    if callers == {cs.path}:
        ra.ok("SessionManager::incr callers", "", "only create_sessions", nontrivial=False)
    else:
        ra.violation("SessionManager::incr callers", "", "incr is called from %s" % sorted(callers))
    wpaths = {}
    for b in F.grep("f|%s|SessionManager|nb_connections" % SM):
        if (SM, "nb_connections") in cover.body_field_writes(b, SM):
            wpaths[b.root if "{closure" in b.path else b.path] = {"nb_connections"}
    wpaths, _ = lib.fold_private_writers(F, wpaths, lambda fn: fn.split("::")[-1] in ("incr", "decr"))
    writers = {w.split("::")[-1] for w in wpaths}
    if writers <= {"incr", "decr"} and writers:
        ra.ok("SessionManager.nb_connections writers", "", "%s" % sorted(writers), nontrivial=False)
    else:
        ra.violation("SessionManager.nb_connections writers", "", "nb_connections written by %s" % sorted(writers))
    # ---------------- R-C16-b ------------------------------------------------
    rb = chk.rule("R-C16-b", "T3", "remove -> close -> decr on every path; decr has one caller", floor=3)
    sd = F.body(SERVER + "::shut_down_sessions_by_frontend_tokens")
    rb.fn(sd.path)
    removes = [bi for bi, t in sd.calls() if callee_of(t) == "slab::Slab::<T>::remove"]
    closes = [bi for bi, t in sd.calls() if t.get("fn", "").endswith("ProxySession::close")]
    decrs = [bi for bi, t in sd.calls() if callee_of(t) == SM + "::decr"]
    if rb.require(removes and closes and decrs, "shut_down_sessions_by_frontend_tokens: remove/close/decr not found"):
        first = min(removes)
        after = sd.reach_from([sd.blocks[first]["t"]["to"]], removed=closes)
        nexts = [bi for bi, t in sd.calls() if t.get("fn", "").endswith("Iterator::next")]
        esc = [x for x in list(sd.returns()) + nexts if x in after]
        key = "%s|remove=>close" % sd.path
        if esc:
            rb.violation(key, sd.where(first), "a session removed from the slab can reach the next iteration/return without close()")
        else:
            rb.ok(key, sd.where(first), "every path from slab.remove passes ProxySession::close")
        after2 = sd.reach_from([sd.blocks[closes[0]]["t"]["to"]], removed=decrs)
        esc2 = [x for x in list(sd.returns()) + nexts if x in after2]
        key = "%s|close=>decr" % sd.path
        if esc2:
            rb.violation(key, sd.where(closes[0]), "a closed session can reach the next iteration/return without SessionManager::decr")
        else:
            rb.ok(key, sd.where(closes[0]), "every path from close passes decr")
    callers = {b.path for b, bi, t in F.call_sites(SM + "::decr")}
    if callers == {sd.path}:
        rb.ok("SessionManager::decr callers", "", "only shut_down_sessions_by_frontend_tokens", nontrivial=False)
    else:
        rb.violation("SessionManager::decr callers", "", "decr is called from %s" % sorted(callers))
    # ---------------- R-C16-c ------------------------------------------------
    rc = chk.rule("R-C16-c", "T8+T5", "per-(cluster, ip) tracking released on close, taken only past the limit test", floor=5)
    rem_impls = F.impls_of("sozu_lib::L7Proxy::remove_session")
    closers = list(rem_impls) + ["<sozu_lib::tcp::TcpSession as sozu_lib::ProxySession>::close"]
    rc.require(len(rem_impls) >= 2, "fewer than 2 L7Proxy::remove_session impls found")
    for p in closers:
        if not F.has(p):
            rc.broke("%s not found" % p)
            continue
        fam = cover.reach_functions(F, p, depth=1)
        has = any(callee_of(t) == SM + "::untrack_all_cluster_ip" for q in fam for _, t in F.body(q).calls())
        key = "%s|untrack_all_cluster_ip" % p
        rc.fn(p)
        if has:
            rc.ok(key, F.body(p).where(), "releases the cluster/ip tracking", nontrivial=False)
        else:
            rc.violation(key, F.body(p).where(), "this session-close path does not call SessionManager::untrack_all_cluster_ip although its siblings do: the per-(cluster, ip) count leaks")
    for b, bi, t in F.call_sites(SM + "::track_cluster_ip"):
        rc.fn(b.path)
        key = "%s|track behind !at_limit" % b.path
        def pred(sb, truth, atom):
            if truth is not False:
                return False
            if atom[0] == "call" and atom[1].endswith("cluster_ip_at_limit"):
                return True
            if atom[0] in ("place", "multi"):
                l = atom[1] if atom[0] == "multi" else pl_local(atom[1])
                return any(c.endswith("cluster_ip_at_limit") for c in b.slice_back([l])["callees"])
            return False
        edges = lib.edges_where(b, pred)
        if edges and lib.guarded_by(b, bi, edges):
            rc.ok(key, b.where(bi), "tracking only on the cluster_ip_at_limit()==false edge")
        else:
            rc.violation(key, b.where(bi), "track_cluster_ip reachable without passing the cluster_ip_at_limit()==false edge")
    # acquire => record the release obligation on every exit (TCP sessions release only when the flag is set)
    TS = "sozu_lib::tcp::TcpSession"
    for b, bi, t in F.call_sites(SM + "::track_cluster_ip"):
        if not b.path.startswith(TS + "::"):
            continue
        flag_writes = [x for x, si, s in b.stmts() if "lhs" in s and not isinstance(s["lhs"], int)
                       and any(f == "cluster_ip_tracked" for _, _, f in proj_fields(s["lhs"]))]
        key = "%s|track => cluster_ip_tracked on every exit" % b.path
        cut = b.reach_from([t["to"]], removed=flag_writes)
        if flag_writes and not [r for r in b.returns() if r in cut]:
            rc.ok(key, b.where(bi), "every path from track_cluster_ip to a return records cluster_ip_tracked")
        else:
            rc.violation(key, b.where(bi), "a path tracks the (cluster, ip) slot and returns (e.g. through `?`) before cluster_ip_tracked is recorded: close() then skips untrack_all_cluster_ip and the slot leaks")
    # ---------------- R-C16-d ------------------------------------------------
    rd = chk.rule("R-C16-d", "T4", "RAII return of buffers: Drop for Checkout, no forget/leak on resource holders", floor=2)
    drops = [im for im in F.impls if im["trait"] == "core::ops::drop::Drop" and "pool::Checkout" in im["self_ty"]]
    if drops:
        rd.ok("Checkout: Drop", "", "impl Drop for %s" % drops[0]["self_ty"], nontrivial=False)
    else:
        rd.violation("Checkout: Drop", "", "pool::Checkout no longer implements Drop: checked-out buffers never return to the pool")
    LEAKS = ("core::mem::forget", "core::mem::manually_drop::ManuallyDrop::<T>::new", "alloc::boxed::Box::<T>::leak",
             "alloc::rc::Rc::<T>::into_raw", "alloc::boxed::Box::<T>::into_raw")
    HOLDERS = ("Checkout", "TimeoutContainer", "Session", "Mux", "Stream", "Connection", "Backend", "kawa::")
    n = 0
    for lk in LEAKS:
        for b, bi, t in F.call_sites(lk):
            n += 1
            full = t.get("full", "")
            key = "%s|%s" % (b.path, lk.split("::")[-2] + "::" + lk.split("::")[-1])
            if any(h in full for h in HOLDERS):
                rd.violation(key, b.where(bi), "%s instantiated on a resource-holding type: %s" % (lk, full[:160]))
            else:
                rd.ok(key, b.where(bi), "on %s" % full[:100], nontrivial=False)
    chk.extra["C16_leak_primitive_sites"] = n
    # ---------------- R-C16-e ------------------------------------------------
    re_ = chk.rule("R-C16-e", "T5", "http.active_requests: -1 only under request_counted, every +1 sets it", floor=4)
    plus, minus = [], []
    for b in F.grep("gauge_add"):
        if "protocol::mux" not in b.path:
            continue   # the legacy kawa_h1 state keeps its own (request-phase based) pairing; not claimed
        for bi, v in gauge_sites(F, b, ACTIVE_REQ):
            (plus if v == 1 else minus).append((b, bi, v))
    re_.require(len(plus) >= 3 and len(minus) >= 1, "expected >=3 increments and >=1 decrement of http.active_requests, found %d/%d" % (len(plus), len(minus)))
    for b, bi, v in minus:
        re_.fn(b.path)
        key = "%s|active_requests-1" % b.path
        def pred(sb, truth, atom):
            return truth is True and atom[0] == "place" and any(f == "request_counted" for _, _, f in proj_fields(atom[1]))
        edges = lib.edges_where(b, pred)
        clears = [x for x, si, s in b.stmts() if "lhs" in s and not isinstance(s["lhs"], int)
                  and any(f == "request_counted" for _, _, f in proj_fields(s["lhs"])) and op_const(s["rv"].get("a", {})) == 0]
        after = b.reach_from([b.blocks[bi]["t"]["to"]], removed=clears)
        esc = [r for r in b.returns() if r in after and r not in clears]
        if edges and lib.guarded_by(b, bi, edges) and clears and not esc:
            re_.ok(key, b.where(bi), "behind request_counted==true and followed by request_counted=false on all paths")
        else:
            re_.violation(key, b.where(bi), "http.active_requests is decremented %s" % ("without the request_counted guard" if not (edges and lib.guarded_by(b, bi, edges)) else "without clearing request_counted afterwards"))
    for i, (b, bi, v) in enumerate(plus):
        re_.fn(b.path)
        ordn = [x for x in plus if x[0].path == b.path].index((b, bi, v))
        key = "%s|active_requests+1#%d" % (b.path, ordn)
        sets = [x for x, si, s in b.stmts() if "lhs" in s and not isinstance(s["lhs"], int)
                and any(f == "request_counted" for _, _, f in proj_fields(s["lhs"])) and op_const(s["rv"].get("a", {})) == 1]
        after = b.reach_from([b.blocks[bi]["t"]["to"]], removed=sets)
        esc = [r for r in b.returns() if r in after]
        if sets and not esc:
            re_.ok(key, b.where(bi), "followed by request_counted=true on every path")
        else:
            re_.violation(key, b.where(bi), "http.active_requests is incremented on a path that never sets request_counted: the matching -1 is skipped and the gauge drifts upward")
    tracking_wipe_rule(F, chk)
    timer_cache_rule(F, chk)


def tracking_wipe_rule(F, chk):
    """R-C16-f: the per-(cluster, source IP) slots are held by live sessions.  Wiping the whole table
    (SessionManager::clear_cluster_ip_tracking) while the limit stays in force lets every source open `limit` more
    connections on top of the ones it still holds.  The wipe is therefore allowed only where the limit is being
    disabled: every call site lies behind an `== 0` edge of the new limit."""
    r = chk.rule("R-C16-f", "T5", "the per-IP tracking table is wiped only when the limit is disabled", floor=1)
    sites = [x for x in F.call_sites(SM + "::clear_cluster_ip_tracking") if "::tests::" not in x[0].path and not x[0].path.endswith("tests")]
    if not r.require(sites, "no call of SessionManager::clear_cluster_ip_tracking found"):
        return
    for i, (b0, bi0, t0) in enumerate(sites):
        b = lib.flat(F, b0, keep=("::clear_cluster_ip_tracking",))
        calls = [bi for bi, t in b.calls() if callee_of(t) == SM + "::clear_cluster_ip_tracking"]
        r.fn(b.path)
        edges = []
        # "the limit": whatever is stored into SessionManager.max_connections_per_ip here (or read back from it)
        lim = set()
        for x, si, st in b.stmts():
            lhs = st.get("lhs")
            if isinstance(lhs, dict) and proj_fields(lhs) and proj_fields(lhs)[-1][2] == "max_connections_per_ip" and st["rv"]["k"] == "use":
                lim |= guards.slice_of_operand(b, st["rv"]["a"])["locals"]
        is_lim = lambda sl: bool(sl["locals"] & lim) or any(fl == "max_connections_per_ip" for _, fl in sl["fields"])
        for sb, f, t, atom in guards.bool_switches(b):
            if atom[0] != "cmp":
                continue
            for tgt in (f, t):
                rel = lib.relation_on_edge(b, sb, tgt)
                if not rel:
                    continue
                op, sa, sbb, _ = rel
                za = any(str(c).startswith("0_") for c in sa["consts"]) and not sa["locals"]
                zb = any(str(c).startswith("0_") for c in sbb["consts"]) and not sbb["locals"]
                la, lb = is_lim(sa), is_lim(sbb)
                if op == "Eq" and ((la and zb) or (lb and za)):
                    edges.append((sb, tgt))
        for j, c in enumerate(calls):
            key = "%s|wipe#%d behind limit == 0" % (b.path, j)
            if edges and lib.guarded_by(b, c, edges):
                r.ok(key, b.where(c), "only on the `limit == 0` edge")
            else:
                r.violation(key, b.where(c), "clear_cluster_ip_tracking() is reachable while a non-zero per-IP limit stays in force: the slots held by live connections are forgotten and each source can open `limit` more")


def run_thorough(F, chk):
    import witness
    witness.apply(chk, "R-C16-d-w", "ClusterIpTrackingIsPrivate", "compile_fail witness: SessionManager tracking maps are private across crates")


def timer_cache_rule(F, chk):
    """R-C16-g: sessions are reclaimed by timeouts, and the worker only polls the timer when Timer::next_poll_date() says a
    timeout is due; that date is the minimum of the per-slot caches `next_tick`.  poll_to may discard a slot's cache
    (next_tick = TICK_MAX) only when the slot is empty (`next == EMPTY`) or when it is starting to walk the slot from its
    head (`curr == head`, the walk recomputes the cache).  Discarding it merely because the cursor entered the slot hides
    the slot's pending timeouts from the next wake-up: an idle session is then not reclaimed within its timeout."""
    r = chk.rule("R-C16-g", "T5", "the timer wheel forgets a slot's cached wake-up only for an empty slot or at the start of its walk", floor=2)
    cands = [p for p in F.paths() if p.startswith("sozu_lib::timer::Timer") and p.endswith("::poll_to")]
    if not r.require(cands, "Timer::poll_to not found"):
        return
    b = lib.flat(F, F.body(cands[0]))
    r.fn(b.path)
    resets = []
    for bi, si, st in b.stmts():
        lhs = st.get("lhs")
        if isinstance(lhs, dict) and proj_fields(lhs) and proj_fields(lhs)[-1][2] == "next_tick" and st["rv"]["k"] == "use" and "TICK_MAX" in str(st["rv"]["a"].get("c", "")) + str(st["rv"]["a"].get("constdef", "")):
            resets.append((bi, si))
    # the cursor moves into a slot by `self.next = wheel[slot].head`; a test of `next` only speaks about THAT slot if it
    # is made after this assignment
    moved = [bi for bi, si, st in b.stmts() if isinstance(st.get("lhs"), dict) and proj_fields(st["lhs"]) and proj_fields(st["lhs"])[-1][2] == "next"]
    def about_slot(sb, fl):
        return "head" in fl or ("next" in fl and any(b.dominates(w, sb) for w in moved))
    def operand_field(op):
        """the struct field whose VALUE the operand is (through refs / copies), or None"""
        l = lib.value_root(b, op_local(op)) if op_local(op) is not None else None
        pl = op_place(op) if l is None else None
        if l is not None:
            d = b.single_def(l)
            if d and d[2] == "assign" and d[3]["k"] in ("use", "ref") :
                pl = op_place(d[3]["a"]) if d[3]["k"] == "use" else d[3]["pl"]
        fs = proj_fields(pl) if isinstance(pl, dict) else []
        return fs[-1][2] if fs else None
    def eq_true(sb, truth, atom):
        if atom[0] == "call" and atom[1].endswith(("PartialEq>::eq", "PartialEq::eq")):
            fl = {operand_field(a_) for a_ in atom[2]["args"]} - {None}
            return truth is True and about_slot(sb, fl)
        return False
    edges = lib.edges_where(b, eq_true)
    for sb, f, t, atom in guards.bool_switches(b):
        if atom[0] == "cmp":
            for tgt in (f, t):
                rel = lib.relation_on_edge(b, sb, tgt)
                if rel and rel[0] == "Eq" and about_slot(sb, {operand_field(rel[3][2]), operand_field(rel[3][3])} - {None}):
                    edges.append((sb, tgt))
    if not r.require(resets, "poll_to: no reset of a slot's next_tick found"):
        return
    for i, (bi, si) in enumerate(resets):
        key = "%s|next_tick reset#%d" % (b.path, i)
        if edges and lib.guarded_by(b, bi, edges):
            r.ok(key, b.where(bi, si), "behind `next == EMPTY` / `curr == head`")
        else:
            r.violation(key, b.where(bi, si), "a slot's cached next_tick is discarded unconditionally: when poll_to stops right after entering that slot its pending timeouts are invisible to next_tick()/next_poll_date(), no wake-up is scheduled and the sessions waiting on them are not reclaimed")
