"""C08 - workers answer each command exactly once (terminal status), routing table vs handlers."""
import engine, lib, guards
from engine import Engine, Spec
from mir import callee_of, op_place, pl_local, op_local, proj_fields
from mir import op_const as mir_const
from facts import Broken

RT = "sozu_command_lib::proto::command::request::RequestType"
WR = "sozu_command_lib::proto::command::WorkerResponse"
PUSH = "sozu_lib::server::push_queue"
WRITE = "sozu_command_lib::channel::Channel::<Tx, Rx>::write_message"
READ = "sozu_command_lib::channel::Channel::<Tx, Rx>::read_message"
SERVER = "sozu_lib::server::Server"
ISFAIL = "sozu_command_lib::response::<impl sozu_command_lib::proto::command::WorkerResponse>::is_failure"
GETDEST = "sozu_command_lib::request::<impl sozu_command_lib::proto::command::Request>::get_destinations"
PROXIES = {
    "http": "<sozu_lib::http::HttpProxy as sozu_lib::ProxyConfiguration>::notify",
    "https": "<sozu_lib::https::HttpsProxy as sozu_lib::ProxyConfiguration>::notify",
    "tcp": "<sozu_lib::tcp::TcpProxy as sozu_lib::ProxyConfiguration>::notify",
    "udp": "sozu_lib::udp::UdpProxy::notify",
}


def constructor_status(F):
    """status atom ('T' terminal / 'P' processing) of each WorkerResponse constructor, read from the
    ResponseStatus variant it builds"""
    out = {}
    for p in F.paths():
        if "impl sozu_command_lib::proto::command::WorkerResponse>::" not in p or "{closure" in p:
            continue
        b = F.body(p)
        if b.locals[0] != WR:
            continue
        st = set()
        for bi, si, s in b.stmts():
            rv = s.get("rv")
            if rv and rv["k"] == "agg" and rv.get("ak") == "adt" and rv["adt"].endswith("::ResponseStatus"):
                st.add(rv["var"])
        if len(st) == 1:
            out[p] = list(st)[0]
        else:
            out[p] = None   # status supplied by the caller (with_status)
    return out


class WorkerSpec(Spec):
    nvec = 1
    enum = RT
    enum_param_markers = ("WorkerRequest", "RequestType", "proto::command::Request")
    state_limit = 600000

    def __init__(self, F):
        self.F = F
        self.ctor = constructor_status(F)
        self.unknown_status = []
        self.reach = None
        self.a1_extra = {SERVER + "::read_channel_messages_and_notify"}
        self.stop_calls = set()

    def prepare(self, eng):
        # functions of sozu_lib from which an event is reachable, or that return a WorkerResponse
        F = self.F
        callers = {}
        names = [p for p in F.paths() if p.startswith("sozu_lib::") or p.startswith("<sozu_lib::")]
        edges = {}
        for p in names:
            b = F.body(p)
            outs = set()
            for bi, t in b.calls():
                outs.add(callee_of(t))
                if t.get("fn"):
                    outs.add(t["fn"])
            for bi, si, s in b.stmts():
                rv = s.get("rv")
                if rv and rv["k"] == "agg" and rv.get("ak") == "closure":
                    outs.add(rv["clo"])
            edges[p] = outs
        reach = {p for p in names if edges[p] & {PUSH, WRITE}}
        changed = True
        while changed:
            changed = False
            for p in names:
                if p not in reach and edges[p] & reach:
                    reach.add(p)
                    changed = True
        for p in names:
            if F.body(p).locals[0] == WR:
                reach.add(p)
        reach.discard(PUSH)
        self.reach = reach

    def zero(self):
        return (0, ())

    def add(self, acc, d):
        return (min(2, acc[0] + d[0]), tuple(sorted(set(acc[1]) | set(d[1]))))

    def event(self, eng, body, bi, t, argv, val):
        fn = t.get("fn")
        if fn == PUSH or (fn == WRITE and body.path.startswith("sozu_lib::server")):
            a = argv[-1] if fn == WRITE else argv[0]
            if isinstance(a, tuple) and a[0] == "ref":
                a = val.get(a[1])
            if isinstance(a, tuple) and a[0] in ("Ok", "Failure"):
                return [((1, (a[1],)), None)]
            if isinstance(a, tuple) and a[0] == "Processing":
                return [((0, ()), None)]
            self.unknown_status.append("%s %s" % (body.path, body.where(bi)))
            return [((1, ("?",)), None)]
        return None

    def builtin_summary(self, eng, body, bi, callee, t, argv, val):
        if callee in self.ctor:
            st = self.ctor[callee]
            if st is None:
                # with_status(id, status): status operand must be a tracked variant
                sv = argv[1] if len(argv) > 1 else None
                if isinstance(sv, tuple) and sv[0] == "var":
                    st = sv[2]
            if st is None:
                return [((0, ()), None)]
            return [((0, ()), (st, lib.site_id(body, bi)))]
        if callee == ISFAIL:
            a = argv[0] if argv else None
            if isinstance(a, tuple) and a[0] == "ref":
                a = val.get(a[1])
            if isinstance(a, tuple) and a[0] in ("Ok", "Failure", "Processing"):
                return [((0, ()), int(a[0] == "Failure"))]
            return [((0, ()), None)]
        return None

    def descend(self, eng, callee):
        return callee in self.reach or callee == GETDEST

    def view(self, eng, body):
        # private helpers that neither queue a response nor build one are spliced into their caller: where a
        # maintainer draws the function boundary around `keep the failure, else the first answer` must not matter
        import inline
        keep = lambda fn: (self.descend(eng, fn) or fn in (PUSH, WRITE, ISFAIL, READ) or fn in self.ctor)
        return inline.inlined(self.F, body, keep_pred=keep, depth=2, budget=400)


def run(F, chk):
    chk.explanation = (
        "Worker side of the command protocol decided per RequestType variant on MIR: for every variant V the "
        "paths of one iteration of Server::read_channel_messages_and_notify (through notify, notify_proxys, the "
        "four proxies' notify and the listener helpers) are enumerated with the discriminant of the request "
        "fixed to V; the number of *terminal* responses queued (push_queue / direct channel write of a response "
        "whose constructor builds ResponseStatus::Ok|Failure) must be exactly one on every path. Also: every "
        "variant routed to a proxy by get_destinations has an explicit arm in that proxy's notify.")
    chk.not_decided = ("that the worker's applied state equals the master's after a sequence of commands; that "
                       "behaviour matches the state; delivery of the queued response by the channel (C11)")
    sp = WorkerSpec(F)
    eng = Engine(F, sp)
    sp.prepare(eng)
    chk.assumptions += [
        "A1: inside the analysed functions every discriminant read of RequestType is on the one request being "
        "handled (checked: rooted in a parameter carrying the request; other reads are not specialised)",
        "closures passed to LocalKey::with run exactly once; Option/Result combinators at most once",
        "panicking paths are not counted as answers",
    ]
    variants = F.variants(RT)
    ra = chk.rule("R-C08-a", "T1", "exactly one terminal response per received command, for every RequestType "
                  "variant and every path of the worker's dispatch", floor=40)
    rcm = sp.view(eng, F.body(SERVER + "::read_channel_messages_and_notify"))
    # start after the read_message call, with the result fixed to Ok(request)
    starts = [(bi, t) for bi, t in rcm.calls() if t.get("fn") == READ]
    if not ra.require(len(starts) == 1, "expected exactly one Channel::read_message call in read_channel_messages_and_notify"):
        return
    rb_, rt_ = starts[0]
    dest = rt_["dest"]
    results = {}
    sp.stop_calls = {READ}

    class LoopSpec(WorkerSpec):
        pass
    # the loop: stop a path when it comes back to read_message => handled in explore via removed start
    for V in variants + ["<None>"]:
        sp.unknown_status = []
        res = explore_one_message(eng, rcm, rb_, rt_, V)
        results[V] = (res, list(sp.unknown_status))
    receivable = worker_receivable(F, chk)
    for V in variants + ["<None>"]:
        counts, unk = results[V]
        cs = sorted({c[0][0] for c in counts})
        accs = sorted({c[0] for c in counts})
        key = "variant %s" % V
        where = rcm.where(rb_)
        if unk:
            ra.broke("status of a queued response not resolved for %s at %s" % (V, unk[:3]))
        if V not in receivable:
            ra.info(key, where, "not worker-receivable (master never sends it); counts %s" % cs)
            continue
        expect = {1}
        if V == "SoftStop":
            expect = {0}
        if set(cs) == expect:
            ra.ok(key, where, "terminal responses per path: %s" % cs)
        else:
            # site ordinals are renumbered among the sites that take part in THIS variant's paths: an unrelated arm
            # gaining or losing a `WorkerResponse::error(..)` does not rename this variant's finding
            allo = sorted({o for (_, os_) in accs for o in os_}, key=lambda o: (o.rsplit("#", 1)[0], int(o.rsplit("#", 1)[1]) if o.rsplit("#", 1)[1].isdigit() else 0))
            rank = {}
            for o in allo:
                base = o.rsplit("#", 1)[0]
                rank[o] = "%s#%d" % (base, len([x for x in rank if x.rsplit("#", 1)[0] == base]))
            for (n, origins) in accs:
                if n in expect:
                    continue
                k2 = "%s|count %d|origins %s" % (key, n, ",".join(short_site(rank.get(o, o)) for o in origins) or "-")
                ra.violation(k2, where, "a path for %s queues %d terminal responses (want %s); terminal statuses built at: %s"
                             % (V, n, sorted(expect), list(origins) or "nowhere"))
    ra.fn(*sorted(eng.functions))
    chk.extra["C08_states_explored"] = eng.states
    chk.extra["C08_receivable"] = sorted(receivable)
    for n in sorted(set(eng.notes)):
        if n.startswith("BROKEN"):
            ra.broke(n)
    upsert_rule(F, chk)
    requeue_rule(F, chk)
    give_back_rule(F, chk)
    # ---------------- R-C08-d routing table vs handlers --------------------
    rd = chk.rule("R-C08-d", "T7b", "every variant get_destinations routes to a proxy has an explicit arm there", floor=20)
    gd = F.body("sozu_command_lib::request::<impl sozu_command_lib::proto::command::Request>::get_destinations")
    dsp = Spec()
    dsp.enum = RT
    dsp.enum_param_markers = ("proto::command::Request", "RequestType")
    deng = Engine(F, dsp)
    for V in variants:
        rets = deng.explore(gd, V)
        dests = set()
        for _, rv in rets:
            if isinstance(rv, tuple) and rv[0] == "struct":
                dests.add(tuple(sorted((k, v) for k, v in rv[1])))
            else:
                dests.add(None)
        if len(dests) != 1 or None in dests:
            rd.broke("get_destinations(%s) not constant: %s" % (V, dests))
            continue
        d = dict(list(dests)[0])
        for pname, ppath in PROXIES.items():
            if not d.get("to_%s_proxy" % pname):
                continue
            arm = explicit_arm(F, ppath, V)
            key = "%s -> %s proxy" % (V, pname)
            np_path = SERVER + "::notify_proxys"
            npb = F.body(np_path)
            reached = False
            if (np_path, V) in eng.traces:
                vis = eng.visited_blocks(np_path, V)
                reached = any(bi in vis for bi, t in npb.calls() if callee_of(t) == ppath)
            if arm:
                rd.ok(key, "", "explicit arm in %s" % ppath)
            elif V in receivable and reached:
                rd.violation(key, F.body(ppath).where(), "variant %s is routed to the %s proxy by get_destinations but falls into the wildcard arm of %s" % (V, pname, ppath))
            else:
                rd.ok(key, "", "routed by the table but answered in notify/notify_proxys before the proxies are consulted", nontrivial=False)
    rd.fn(gd.path, *PROXIES.values())


def upsert_rule(F, chk):
    """R-C08-f: AddCluster is an upsert - the master replaces the whole Cluster entry, so the worker must
    (re)apply every cluster-level knob unconditionally: each BackendMap setter that Server::add_cluster calls
    lies on every path of the function (post-dominates its entry)."""
    r = chk.rule("R-C08-f", "T3", "worker add_cluster applies every cluster knob unconditionally (upsert = replace)", floor=3)
    b = F.body(SERVER + "::add_cluster")
    r.fn(b.path)
    setters = {}
    for bi, t in b.calls():
        c = callee_of(t)
        if c.startswith("sozu_lib::backends::BackendMap::set_"):
            setters.setdefault(c, []).append(bi)
    for c, blocks in sorted(setters.items()):
        cut = b.reach_from([0], removed=blocks)
        key = "%s|%s on every path" % (b.path, c.split("::")[-1])
        if [x for x in b.returns() if x in cut]:
            r.violation(key, b.where(blocks[0]), "%s is skipped on some path of the worker's add_cluster: re-sending a cluster does not replace that knob although the master's ConfigState replaced the whole entry (views diverge silently)" % c.split("::")[-1])
        else:
            r.ok(key, b.where(blocks[0]), "applied on every path")


def short_site(o):
    fn, _, rest = o.partition(">")
    parts = fn.replace("<", "").replace(">", "").split("::")
    return "::".join(parts[-2:]) + ">" + rest


def explore_one_message(eng, rcm, rb_, rt_, V):
    """paths of one loop iteration: from the block after read_message (result = Ok) to the next
    read_message call or a return"""
    sp = eng.spec
    # cut: treat the read_message block as an exit by exploring a shallow copy of the body whose
    # read_message block is a Return
    import copy
    rec = dict(rcm.rec)
    blocks = list(rec["blocks"])
    blk = dict(blocks[rb_])
    blk["t"] = {"k": "ret"}
    blk["s"] = []
    blocks[rb_] = blk
    rec["blocks"] = blocks
    from mir import Body
    cut = Body(rec, rcm.crate)
    dest = rt_["dest"]
    init = {}
    if isinstance(dest, int):
        init[dest] = ("disc", 0)
    eng._live.pop(cut.path, None)
    eng._orig.pop(cut.path, None)
    res = eng.explore(cut, V, init_val=init, start=rt_["to"])
    eng._live.pop(cut.path, None)
    eng._orig.pop(cut.path, None)
    return res


def explicit_arm(F, ppath, V):
    """does proxy notify have a switch edge (not `otherwise`) for variant V on a RequestType discriminant"""
    b = F.body(ppath)
    discr = F.variant_discr(RT)[V]
    for bi in b.reachable():
        t = b.blocks[bi]["t"]
        if t["k"] != "switch":
            continue
        l = t["op"].get("mv", t["op"].get("cp"))
        if not isinstance(l, int):
            continue
        d = b.single_def(l)
        if d and d[2] == "assign" and d[3]["k"] == "discr" and d[3]["adt"] == RT:
            if any(int(v) == discr and tg != t["else"] for v, tg in t["ts"]):
                return True
    return False


def intercepted_before(results, V):
    return False


def rt_aggs_in(F, root, depth=4):
    """RequestType variants constructed in `root`'s family and its sozu_command_lib callees (bounded)"""
    seen, out = set(), set()
    work = [(root, 0)]
    while work:
        p, d = work.pop()
        if p in seen or not F.has(p):
            continue
        seen.add(p)
        for q in F.family(p):
            b = F.body(q)
            if b.derived:
                continue
            for bi, si, s in b.stmts():
                rv = s.get("rv")
                if rv and rv["k"] == "agg" and rv.get("ak") == "adt" and rv["adt"] == RT:
                    out.add(rv["var"])
            if d < depth:
                for bi, t in b.calls():
                    c = callee_of(t)
                    if c.startswith("sozu_command_lib::") or c.startswith("<sozu_command_lib::"):
                        work.append((c, d + 1))
    return out


def dispatchable(F):
    """variants ConfigState::dispatch accepts (no path constructing StateError::UndispatchableRequest)"""
    disp = F.body("sozu_command_lib::state::ConfigState::dispatch")
    sp = Spec()
    sp.enum = RT
    sp.enum_param_markers = ("proto::command::Request", "RequestType")
    e = Engine(F, sp)
    bad_blocks = {bi for bi, si, s in disp.stmts()
                  if s.get("rv", {}).get("k") == "agg" and s["rv"].get("var") == "UndispatchableRequest"}
    if not bad_blocks:
        raise Broken("ConfigState::dispatch constructs no StateError::UndispatchableRequest (anchor lost)")
    out = set()
    for V in F.variants(RT):
        e.explore(disp, V)
        if not (e.visited_blocks(disp.path, V) & bad_blocks):
            out.add(V)
    return out


HCR = "sozu::command::requests::<impl sozu::command::server::Server>::handle_client_request"


def worker_receivable(F, chk):
    """variants the master can put on a worker channel, derived from the provenance (backward data
    slice) of the request operand of every Server::scatter / scatter_on call in the master"""
    recv = {}
    passthrough = set()
    sites = []
    for name in ("sozu::command::server::Server::scatter", "sozu::command::server::Server::scatter_on"):
        sites += F.call_sites(name)
    if len(sites) < 10:
        raise Broken("only %d scatter call sites found (floor 10)" % len(sites))
    for b, bi, t in sites:
        if b.path == "sozu::command::server::Server::scatter":
            continue   # forwards its own parameter to scatter_on
        a = t["args"][1]
        sl = b.slice_back([pl_local(op_place(a))])
        found = False
        for l in sl["locals"]:
            for d in b.defs().get(l, []):
                if d[2] == "assign" and d[3]["k"] == "agg" and d[3].get("adt") == RT:
                    recv.setdefault(d[3]["var"], set()).add("constructed in " + b.path)
                    found = True
        for p in sl["params"]:
            if "RequestType" in b.locals[p] or b.locals[p].endswith("proto::command::Request"):
                passthrough.add(b.path)
                found = True
        for c in sl["callees"]:
            if c == "sozu_command_lib::parser::parse_several_requests":
                for V in dispatchable(F):
                    recv.setdefault(V, set()).add("state file replayed by " + b.path)
                found = True
            elif c.startswith("sozu_command_lib::") and ("generate" in c or c.endswith("::diff")):
                for V in rt_aggs_in(F, c):
                    recv.setdefault(V, set()).add("generated by %s for %s" % (c.split("::")[-1], b.path))
                found = True
        if not found:
            raise Broken("cannot derive which requests %s scatters at %s" % (b.path, b.where(bi)))
    # initial state pushed to a fresh worker
    for g in ("sozu_command_lib::state::ConfigState::generate_requests",
              "sozu_command_lib::state::ConfigState::generate_activate_requests"):
        for V in rt_aggs_in(F, g):
            recv.setdefault(V, set()).add("initial state (%s)" % g.split("::")[-1])
    hcr = F.body(HCR)

    class PT(Spec):
        nvec = 1
        enum = RT
        enum_param_markers = ("proto::command::Request", "RequestType")

        def event(self, eng, body, bi, t, argv, val):
            if t.get("fn") in passthrough:
                return [((1,), None)]
            return None
    e = Engine(F, PT())
    for V in F.variants(RT):
        res = e.explore(hcr, V)
        if any(c[0] >= 1 for c, _ in res):
            recv.setdefault(V, set()).add("client verb passed through " + "/".join(sorted(x.split("::")[-1] for x in passthrough)))
    chk.extra["C08_receivable_why"] = {k: sorted(v)[:3] for k, v in sorted(recv.items())}
    return set(recv)


def requeue_rule(F, chk):
    """R-C08-g: a response that was queued is an answer the main process is waiting for.  Wherever the worker takes one off
    the queue (VecDeque::pop_front) and hands it to Channel::write_message, the Err edge of that write (frame does not fit
    the back buffer right now) must put it back (push_front / push_back) before the next pop or the return - otherwise a
    command that was received and processed gets no final answer under back-pressure."""
    r = chk.rule("R-C08-g", "T3", "a queued response leaves the queue only by being written", floor=1)
    WM = "sozu_command_lib::channel::Channel::<Tx, Rx>::write_message"
    n = 0
    for b in F.grep("VecDeque::<T, A>::pop_front", "write_message"):
        if not (b.path.startswith("sozu_lib::") or b.path.startswith("<sozu_lib::")):
            continue
        pops = [(bi, t) for bi, t in b.calls() if callee_of(t).endswith("VecDeque::<T, A>::pop_front")]
        writes = [(bi, t) for bi, t in b.calls() if t.get("fn") == WM or callee_of(t) == WM]
        if not pops or not writes:
            continue
        # the written value must be the popped one
        popped = {t["dest"] for _, t in pops if isinstance(t.get("dest"), int)}
        for wi, wt in writes:
            sl = guards.slice_of_operand(b, wt["args"][-1])
            if not (sl["locals"] & popped):
                continue
            n += 1
            r.fn(b.path)
            key = "%s|requeue on failed write#%d" % (b.path, n - 1)
            err_targets = []
            import C17
            for sb, tg, el in C17.discr_switches(b, wt["dest"]):
                err_targets.append(tg.get(1, el))
            if not err_targets:
                r.violation(key, b.where(wi), "the result of write_message is not inspected: a response the channel refuses is dropped")
                continue
            pushes = [bi for bi, t in b.calls() if callee_of(t).endswith(("VecDeque::<T, A>::push_front", "VecDeque::<T, A>::push_back"))]
            cut = b.reach_from(err_targets, removed=pushes)
            lost = [x for x, _ in pops if x in cut] + [x for x in b.returns() if x in cut]
            if lost:
                r.violation(key, b.where(wi), "on the Err edge of channel.write_message the popped response is not put back into the queue before the next pop / the return: under back-pressure an answered command loses its final status")
            else:
                r.ok(key, b.where(wi), "Err edge of write_message re-queues the response (push_front/push_back) on every path")
    r.require(n >= 1, "no pop_front -> write_message site found in sozu_lib")


def give_back_rule(F, chk):
    """R-C08-h: ReturnListenSockets / DeactivateListener hand a listener's socket back (`listener.take()`).  A listener
    whose socket is gone must not stay `active`: activate() short-circuits on that flag and answers OK without binding.
    The four proxies' give_back_listener(s) are siblings; each clears `active` on every path on which it took a socket."""
    r = chk.rule("R-C08-h", "T8", "a listener that gave its socket back is no longer marked active", floor=4)
    import C17
    n = 0
    import inline
    roots_ = sorted(q for q in F.paths() if q.startswith(("sozu_lib::", "<sozu_lib::")) and "{closure" not in q
                    and q.rsplit("::", 1)[-1].startswith("give_back_listener"))
    bodies_ = []
    for q in roots_:
        for fq in F.family(q):
            # `take the socket and clear the flag` may be a method of the listener type: splice those in
            bodies_.append(inline.threaded(F, inline.inlined(F, F.body(fq), policy="all", depth=2,
                                                             keep_pred=lambda fn: "Listener::" not in fn and "Listener>::" not in fn)))
    for b in bodies_:
        if b.derived:
            continue
        for bi, t in b.calls():
            if not (callee_of(t).endswith("Option::<T>::take") and t["args"]):
                continue
            sl = guards.slice_of_operand(b, t["args"][0])
            hit = [(a, f) for a, f in sl["fields"] if f == "listener"]
            if not hit or hit[0][0] not in F.adts or not any(x["name"] == "active" for x in F.fields(hit[0][0])):
                continue
            n += 1
            r.fn(b.path)
            key = "%s|take => active cleared" % b.path
            clears = [x for x, si, s2 in b.stmts() if isinstance(s2.get("lhs"), dict) and proj_fields(s2["lhs"]) and
                      proj_fields(s2["lhs"])[-1][2] == "active" and s2["rv"]["k"] == "use" and mir_const(s2["rv"]["a"]) == 0]
            some = []
            # the value may reach the test through `?` (Try::branch) or a plain match
            carriers = {t["dest"]: "opt"} if isinstance(t.get("dest"), int) else {}
            grew = True
            while grew:
                grew = False
                for x, tt in b.calls():
                    a0 = op_local(tt["args"][0]) if tt["args"] else None
                    if a0 in carriers and isinstance(tt.get("dest"), int) and tt["dest"] not in carriers and callee_of(tt).endswith(("::ok_or", "::ok_or_else")):
                        carriers[tt["dest"]] = "res"
                        grew = True
                for x, si, s2 in b.stmts():
                    rv2 = s2.get("rv")
                    if rv2 and rv2["k"] == "use" and isinstance(s2.get("lhs"), int) and op_local(rv2["a"]) in carriers and s2["lhs"] not in carriers:
                        carriers[s2["lhs"]] = carriers[op_local(rv2["a"])]
                        grew = True
            for x, tt in b.calls():
                if (tt.get("fn") or "").endswith("Try::branch") and tt["args"] and op_local(tt["args"][0]) in carriers and isinstance(tt.get("dest"), int):
                    for sb, tg, el in C17.discr_switches(b, tt["dest"]):
                        some.append(tg.get(0, el))          # Continue: a socket was taken
            for c, kind in list(carriers.items()):
                for sb, tg, el in C17.discr_switches(b, c):
                    some.append(tg.get(1 if kind == "opt" else 0, el))     # Some / Ok
            if not some:
                r.violation(key, b.where(bi), "the result of listener.take() is not examined")
                continue
            after = b.reach_from(some, removed=clears)
            if clears and not [x for x in b.returns() if x in after]:
                r.ok(key, b.where(bi), "every path past a taken socket clears `active`")
            else:
                r.violation(key, b.where(bi), "a listener's socket is handed back while the listener stays `active`: a later ActivateListener short-circuits on the stale flag and is answered OK although nothing listens on the address")
    r.require(n >= 4, "only %d give_back_listener(s) take sites found" % n)
