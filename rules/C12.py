"""C12 - traffic only goes to eligible backends (structural clauses)."""
import alias, bounds, cover, guards, lib
from mir import callee_of, op_place, op_local, pl_local, proj_fields
from mir import op_const as mir_const

BK = "sozu_lib::backends::Backend"
BL = "sozu_lib::backends::BackendList"
SM = "sozu_lib::server::SessionManager"
LB_NEXT = "sozu_lib::load_balancing::LoadBalancingAlgorithm::next_available_backend"


def call_atom_edges(b, callee_suffix, truth_wanted):
    """edges on which a boolean call `callee` evaluated to truth_wanted"""
    def pred(bi, truth, atom):
        return atom[0] == "call" and atom[1].endswith(callee_suffix) and truth is truth_wanted
    return lib.edges_where(b, pred)


def closure_reads_calls(F, path):
    b = F.body(path)
    r, _ = cover.body_field_reads(b)
    calls = {callee_of(t) for _, t in b.calls()}
    return {f for (a, f) in r if a == BK}, calls


def run(F, chk):
    chk.explanation = (
        "Structural necessary conditions of 'traffic only goes to eligible backends' decided on MIR: (a) every candidate "
        "vector handed to a load-balancing algorithm is produced by BackendList::available_backends (whose filter calls "
        "Backend::can_open and matches the backup flag) or by the documented fail-open filter (status==Normal and "
        "retry_policy.can_try()); (b) find_sticky yields a backend only on the true edge of can_open(), and the "
        "primary -> backup -> fail-open cascade is ordered by emptiness tests; (c) the connection/request counters and "
        "the backend status have a closed set of writers; (d) every mutation of BackendList.backends is followed by a "
        "rebuild of the load-balancing structure and happens inside impl BackendList; (f) no accounting counter can "
        "underflow: every raw subtraction is behind a `> 0` test of the same field, all others saturate.")
    chk.not_decided = "policy behaviour (cursor, weights, affinity), counter balance over histories, health-check timing"
    # ---------------- R-C12-a -----------------------------------------------
    ra = chk.rule("R-C12-a", "T12", "candidate vectors come from the eligibility filters", floor=4)
    sites = [x for x in F.call_sites(LB_NEXT) if x[0].path.startswith(BL)]
    ra.require(len(sites) >= 2, "fewer than 2 calls of LoadBalancingAlgorithm::next_available_backend in BackendList")
    flat_sites = []
    for path in sorted({x[0].path for x in sites}):
        fb = lib.flat(F, F.body(path), keep=(BL + "::available_backends",))
        flat_sites += [(fb, bi, t) for bi, t in fb.calls() if LB_NEXT in (t.get("fn"), t.get("res"))]
    ra.require(len(flat_sites) >= len(sites), "call sites lost while splicing helpers")
    for b, bi, t in flat_sites:
        ra.fn(b.path)
        arg = t["args"][-1]
        T = bounds.Terms(b)
        base = T.slice_base(op_local(arg))
        base = base[1] if isinstance(base, tuple) else base
        key = "%s|%s" % (b.path, lib.site_id(b, bi).split(">")[-1])
        bad = []
        srcs = []
        producers = []
        seen = set()
        work = [base]
        while work:
            l = work.pop()
            if l in seen:
                continue
            seen.add(l)
            for d in b.defs().get(l, []):
                if d[2] == "call":
                    producers.append(d)
                elif d[2] == "assign" and d[3]["k"] == "use" and op_local(d[3]["a"]) is not None:
                    work.append(op_local(d[3]["a"]))
                elif d[2] in ("partial", "mutarg"):
                    continue   # element writes / the vector handed to the algorithm as &mut are not producers
                else:
                    bad.append("assigned by a non-call")
        for d in producers:
            c = callee_of(d[3])
            if c == BL + "::available_backends":
                srcs.append("available_backends")
            elif c.endswith("Iterator::collect") or c.endswith("::collect"):
                sl = b.slice_back([op_local(d[3]["args"][0])])
                clos = [x for x in F.family(b.path) if x != b.path]
                for fn_, _, _, _ in b.inl:          # closures of spliced-in helpers belong to this function now
                    clos += [x for x in F.family(fn_) if x != fn_]
                okc = False
                for cl in clos:
                    flds, calls = closure_reads_calls(F, cl)
                    if "status" in flds and any(x.endswith("::can_try") for x in calls):
                        okc = True
                if okc and any(x.endswith("Iterator::filter") or x.endswith("::filter") for x in sl["callees"]):
                    srcs.append("fail-open filter(status==Normal && can_try)")
                else:
                    bad.append("collected from an iterator without the status/can_try filter")
            else:
                bad.append("produced by %s" % c)
        if bad or not srcs:
            ra.violation(key, b.where(bi), "candidate vector given to the load balancer is %s" % "; ".join(bad or ["of unknown origin"]))
        else:
            ra.ok(key, b.where(bi), "candidates from: " + ", ".join(sorted(set(srcs))))
    av = F.body(BL + "::available_backends")
    ok = False
    for cl in F.family(av.path)[1:]:
        flds, calls = closure_reads_calls(F, cl)
        if "backup" in flds and BK + "::can_open" in calls:
            ok = True
    ra.fn(av.path)
    if ok:
        ra.ok("%s|filter" % av.path, av.where(), "filter closure reads `backup` and calls Backend::can_open")
    else:
        ra.violation("%s|filter" % av.path, av.where(), "available_backends no longer filters on Backend::can_open() and the backup flag")
    co = F.body(BK + "::can_open")
    r, _ = cover.body_field_reads(co, BK)
    if "status" in {f for _, f in r} and any(callee_of(t).endswith("::can_try") for _, t in co.calls()):
        ra.ok("%s|reads status+retry" % co.path, co.where(), "can_open tests status and the retry policy")
    else:
        ra.violation("%s|reads status+retry" % co.path, co.where(), "Backend::can_open no longer tests status and retry_policy.can_try()")
    exhaustive_probe_rule(F, chk)
    backoff_window_rule(F, chk)
    # ---------------- R-C12-b -----------------------------------------------
    rb = chk.rule("R-C12-b", "T5", "sticky lookup honours can_open; cascade ordered by emptiness", floor=3)
    fs = BL + "::find_sticky"
    done = False
    for cl in F.family(fs)[1:]:
        cb = F.body(cl)
        somes = [(bi, si) for bi, si, s in cb.stmts() if s.get("lhs") == 0 and s["rv"]["k"] == "agg" and s["rv"].get("var") == "Some"]
        if not somes:
            continue
        rb.fn(cl)
        done = True
        edges = call_atom_edges(cb, "Backend::can_open", True)
        key = "%s|Some behind can_open" % cl
        if edges and all(lib.guarded_by(cb, bi, edges) for bi, _ in somes):
            rb.ok(key, cb.where(somes[0][0]), "Some(backend) only on the can_open()==true edge")
        else:
            rb.violation(key, cb.where(somes[0][0]), "find_sticky can return a backend without passing the can_open()==true edge")
    if not done:
        # the same test written as a filter predicate: a bool closure whose result IS can_open(), handed to
        # Option::filter / Iterator::filter inside find_sticky
        fsb = F.body(fs)
        filt = [t for _, t in fsb.calls() if callee_of(t).endswith("::filter")]
        for cl in F.family(fs)[1:]:
            cb = F.body(cl)
            cc = [(bi, t) for bi, t in cb.calls() if callee_of(t) == BK + "::can_open"]
            if not cc or cb.locals[0] != "bool":
                continue
            rb.fn(cl)
            done = True
            key = "%s|Some behind can_open" % cl
            sl = cb.slice_back([0])
            passed = any(any(x.get("ty", "").find(cl.split("::")[-1]) >= 0 or True for x in t["args"]) for t in filt)
            # every value the closure can return is the call's result (no constant `true`)
            rets = [d for d in cb.defs().get(0, []) if d[2] in ("assign", "call")]
            only_call = all((d[2] == "call" and callee_of(d[3]) == BK + "::can_open") or
                            (d[2] == "assign" and d[3]["k"] == "use" and op_local(d[3]["a"]) is not None and
                             BK + "::can_open" in cb.slice_back([op_local(d[3]["a"])])["callees"]) or
                            (d[2] == "assign" and d[3]["k"] == "use" and mir_const(d[3]["a"]) == 0)
                            for d in rets)
            if filt and rets and only_call:
                rb.ok(key, cb.where(cc[0][0]), "filter predicate returns can_open() (or false)")
            else:
                rb.violation(key, cb.where(cc[0][0]), "find_sticky can return a backend without can_open() having held")
    if not done:
        # neither shape: the sticky lookup does not consult can_open() at all
        fsb0 = F.body(fs)
        rb.fn(fs)
        rb.violation("%s|Some behind can_open" % fs, fsb0.where(), "find_sticky no longer tests Backend::can_open(): a sticky cookie sends new connections to a backend that is closing, unhealthy or inside its failure back-off")
    nk = lib.flat(F, F.body(BL + "::next_available_backend_with_key"), keep=(BL + "::available_backends",))
    rb.fn(nk.path)
    avs = [(bi, t) for bi, t in nk.calls() if callee_of(t) == BL + "::available_backends"]
    empt_true = call_atom_edges(nk, "Vec::<T, A>::is_empty", True)
    prim = [x for x in avs if lib and bounds.Terms(nk).term(x[1]["args"][1]) == ("const", 0)]
    back = [x for x in avs if bounds.Terms(nk).term(x[1]["args"][1]) == ("const", 1)]
    if rb.require(len(prim) == 1 and len(back) == 1, "next_available_backend_with_key: primary/backup queries not found"):
        key = "%s|backup after empty primary" % nk.path
        if nk.dominates(prim[0][0], back[0][0]) and empt_true and lib.guarded_by(nk, back[0][0], empt_true):
            rb.ok(key, nk.where(back[0][0]), "backup query dominated by the primary query and an is_empty()==true edge")
        else:
            rb.violation(key, nk.where(back[0][0]), "the backup set is consulted without the primary set having been found empty")
        fo = [bi for bi, t in nk.calls() if callee_of(t).endswith("Iterator::filter")]
        key = "%s|fail-open last" % nk.path
        if fo and all(nk.dominates(back[0][0], x) or lib.guarded_by(nk, x, empt_true) for x in fo) and all(lib.guarded_by(nk, x, empt_true) for x in fo):
            rb.ok(key, nk.where(fo[0]), "fail-open filter only after an emptiness test succeeded")
        else:
            rb.violation(key, nk.where(fo[0]) if fo else nk.where(), "the fail-open filter is reachable while eligible backends exist")
    # ---------------- R-C12-c -----------------------------------------------
    rc = chk.rule("R-C12-c", "T4", "closed writer sets for Backend counters and status", floor=2)
    allowed = {"active_connections": {"inc_connections", "dec_connections"},
               "status": {"set_closing", "dec_connections"},
               "active_requests": None}
    for fld, okset in allowed.items():
        writers = {}
        for b in F.grep("f|%s|Backend|%s" % (BK, fld)):
            if (BK, fld) in cover.body_field_writes(b, BK):
                writers[b.path] = b
        key = "Backend.%s writers" % fld
        if okset is None:
            rc.info(key, "", "writers: %s" % sorted(w.split("::")[-1] for w in writers))
            continue
        okw = lambda w, okset=okset: w.split("::")[-1] in okset and w.startswith(BK + "::")
        folded_w, _ = lib.fold_private_writers(F, {w: {fld} for w in writers}, okw)
        bad = [w for w in folded_w if not okw(w)]
        rc.fn(*writers)
        if not writers:
            rc.broke("no writer of Backend.%s found" % fld)
        elif bad:
            rc.violation(key, writers[bad[0]].where(), "Backend.%s is written outside %s: %s" % (fld, sorted(okset), bad))
        else:
            rc.ok(key, "", "writers %s" % sorted(w.split("::")[-1] for w in writers))
    # ---------------- R-C12-f -----------------------------------------------
    rf = chk.rule("R-C12-f", "T5", "accounting counters cannot underflow", floor=3)
    counters = [(BK, "active_connections"), (BK, "active_requests"), (SM, "nb_connections")]
    for adt, fld in counters:
        n = 0
        for b in F.grep("f|%s|%s|%s" % (adt, adt.split("::")[-1], fld)):
            for bi, si, s in b.stmts():
                rv = s.get("rv")
                if not (rv and rv["k"] == "bin" and rv["op"].startswith("Sub")):
                    continue
                pa = op_place(rv["a"])
                srcs = set()
                if pa is not None:
                    srcs |= {(a, f) for a, v, f in proj_fields(pa)}
                    if isinstance(pa, int):
                        srcs |= b.slice_back([pa])["fields"]
                if (adt, fld) not in srcs:
                    continue
                n += 1
                rf.fn(b.path)
                key = "%s|%s -= #%d" % (b.path, fld, n)
                # guard: edge on which field > 0 (or != 0)
                edges = []
                for sb, f, t, atom in guards.bool_switches(b):
                    if atom[0] != "cmp":
                        continue
                    for tgt in (f, t):
                        rel = lib.relation_on_edge(b, sb, tgt)
                        if not rel:
                            continue
                        op, sa, sbb, _ = rel
                        if any((a, fl) == (adt, fld) for a, fl in sa["fields"]) and "0_usize" in {str(c) for c in sbb["consts"]} and op in ("Gt", "Ne"):
                            edges.append((sb, tgt))
                        if any((a, fl) == (adt, fld) for a, fl in sbb["fields"]) and "0_usize" in {str(c) for c in sa["consts"]} and op in ("Lt", "Ne"):
                            edges.append((sb, tgt))
                # assert!(x > 0) form: an Assert terminator / panic branch also yields the edge via bool_switches
                if edges and lib.guarded_by(b, bi, edges):
                    rf.ok(key, b.where(bi, si), "raw subtraction behind a `> 0` edge on the same field")
                else:
                    rf.violation(key, b.where(bi, si), "raw `-` on %s.%s without a dominating `> 0` test of that field: the counter can underflow (panic in debug, wrap in release)" % (adt.split("::")[-1], fld))
            # the other accepted form of a decrement: x = x.saturating_sub(n) / checked_sub(n) on the same field
            for bi, t in b.calls():
                c = callee_of(t)
                if not (c.endswith("::saturating_sub") or c.endswith("::checked_sub") or c.endswith("::wrapping_sub")):
                    continue
                if not t["args"]:
                    continue
                sl = guards.slice_of_operand(b, t["args"][0])
                if (adt, fld) not in sl["fields"]:
                    continue
                n += 1
                rf.fn(b.path)
                key = "%s|%s -= #%d" % (b.path, fld, n)
                if c.endswith("::wrapping_sub"):
                    rf.violation(key, b.where(bi), "wrapping decrement of %s.%s: the counter wraps below zero" % (adt.split("::")[-1], fld))
                else:
                    rf.ok(key, b.where(bi), "decrement through %s" % c.split("::")[-1], nontrivial=False)
    # ---------------- R-C12-d -----------------------------------------------
    rd = chk.rule("R-C12-d", "T3+T4", "backends list mutations are followed by a load-balancer rebuild", floor=2)
    MUT = ("::push", "::retain", "::remove", "::clear", "::swap_remove", "::insert", "::truncate", "::drain", "::pop")
    muts = [(b, bi, c) for (b, bi, c) in lib.field_mut_calls(F, BL, "backends") if c.endswith(MUT)]
    rd.require(len(muts) >= 2, "fewer than 2 mutations of BackendList.backends found")
    for b, bi, c in muts:
        rd.fn(b.path)
        key = "%s|backends%s" % (b.path, c[c.rfind("::"):])
        if not b.path.startswith(BL + "::"):
            rd.violation(key, b.where(bi), "BackendList.backends mutated outside impl BackendList")
            continue
        reb = [x for x, t in b.calls() if callee_of(t).endswith("::rebuild")]
        cut = b.reach_from([b.blocks[bi]["t"]["to"]], removed=reb)
        leak = [r for r in b.returns() if r in cut]
        if not leak:
            rd.ok(key, b.where(bi), "every path from the mutation to return passes load_balancing.rebuild")
            continue
        # accepted conditional idiom: the only rebuild-free continuation is the `removed.is_empty()` edge
        emp = call_atom_edges(b, "Vec::<T, A>::is_empty", True)
        import guards as g
        cut2 = g.reach_without_edges(b, emp, start=b.blocks[bi]["t"]["to"])
        cut2 = {x for x in cut2 if x in cut}
        leak2 = [r for r in b.returns() if r in cut2 and r in b.reach_from([b.blocks[bi]["t"]["to"]], removed=reb + [e[1] for e in emp])]
        if emp and not leak2:
            rd.ok(key, b.where(bi), "rebuild skipped only on the `nothing removed` (is_empty) edge")
        else:
            rd.violation(key, b.where(bi), "a path mutates BackendList.backends and returns without rebuilding the load-balancing structure")


def exhaustive_probe_rule(F, chk):
    """R-C12-g: affinity lookups must be exhaustive over the candidates: Maglev's keyed probe walks the whole
    permutation table (range end = the table size, uncapped), otherwise a key can miss every eligible backend
    although one exists and falls through to the stateful round-robin tail (one key, several backends)."""
    r = chk.rule("R-C12-g", "T12", "the keyed Maglev probe covers the whole table", floor=1)
    p = "<sozu_lib::load_balancing::Maglev as sozu_lib::load_balancing::LoadBalancingAlgorithm>::next_available_backend"
    if not r.require(F.has(p), "Maglev::next_available_backend not found"):
        return
    b = F.body(p)
    r.fn(p)
    n = 0
    for bi, si, s in b.stmts():
        rv = s.get("rv")
        if rv and rv["k"] == "agg" and rv.get("adt") == "core::ops::range::Range":
            n += 1
            sl = guards.slice_of_operand(b, rv["ops"][1])
            size_like = any(f in ("size", "table") for _, f in sl["fields"])
            capped = any(c.endswith("::min") or c.endswith("::clamp") for c in sl["callees"]) or \
                any(str(c)[0].isdigit() for c in sl["consts"] if c)
            key = "%s|probe range#%d" % (p, n)
            if size_like and not capped:
                r.ok(key, b.where(bi, si), "range end derives from the table size only")
            else:
                r.violation(key, b.where(bi, si), "the keyed probe no longer walks the whole table (its end is %s): a key whose first slots belong to ineligible backends falls through to the stateful fallback and alternates between backends" % ("capped" if capped else "not the table size"))


def backoff_window_rule(F, chk):
    """R-C12-h: `not inside its failure back-off` is decided by can_try() as last_try.elapsed() >= wait.  That is only the
    back-off the property means if the window starts at the failure: every path of RetryPolicy::fail that arms a window
    (writes `wait`) also stamps its start (`last_try` <- Instant::now()), and can_try() consults both fields."""
    r = chk.rule("R-C12-h", "T3", "a failure arms the back-off window and stamps its start", floor=2)
    POL = "sozu_lib::retry::ExponentialBackoffPolicy"
    fails = [p for p in F.paths() if p.startswith("<" + POL + " as ") and p.endswith("RetryPolicy>::fail")]
    cans = [p for p in F.paths() if p.startswith("<" + POL + " as ") and p.endswith("RetryPolicy>::can_try")]
    if not r.require(fails and cans, "ExponentialBackoffPolicy::fail / can_try not found"):
        return
    b = lib.flat(F, F.body(fails[0]))
    r.fn(b.path)
    def writes(field, need_now=False):
        out = []
        for bi, si, st in b.stmts():
            lhs = st.get("lhs")
            if isinstance(lhs, dict) and proj_fields(lhs) and proj_fields(lhs)[-1][2] == field and proj_fields(lhs)[-1][0] == POL:
                if need_now and not any(c.endswith("Instant::now") for c in guards.slice_of_operand(b, st["rv"].get("a", {}))["callees"]):
                    continue
                out.append(bi)
        for bi, t in b.calls():
            d = t.get("dest")
            if isinstance(d, dict) and proj_fields(d) and proj_fields(d)[-1][2] == field and proj_fields(d)[-1][0] == POL:
                if need_now and not callee_of(t).endswith("Instant::now"):
                    continue
                out.append(bi)
        return out
    arm = writes("wait")
    stamp = writes("last_try", need_now=True)
    key = "%s|wait armed => last_try stamped" % b.path
    if not r.require(arm, "fail(): no write of `wait` found"):
        return
    bad = []
    for w in arm:
        before = any(b.dominates(s_, w) for s_ in stamp)
        after_leak = [x for x in b.returns() if x in b.reach_from(b.succ()[w], removed=stamp)] if w not in stamp else []
        if not before and after_leak:
            bad.append(w)
    if bad:
        r.violation(key, b.where(bad[0]), "fail() arms a back-off window (writes `wait`) on a path that does not set last_try to Instant::now(): the window is measured from the backend's creation / last success, so a backend that just failed still passes can_try() and keeps receiving connections")
    else:
        r.ok(key, b.where(arm[0]), "every path writing `wait` also stamps last_try = Instant::now()")
    cb = F.body(cans[0])
    rd, _ = cover.body_field_reads(lib.flat(F, cb), POL)
    got = {f for _, f in rd}
    key = "%s|reads last_try and wait" % cb.path
    if {"last_try", "wait"} <= got:
        r.ok(key, cb.where(), "can_try compares last_try.elapsed() with wait", nontrivial=False)
    else:
        r.violation(key, cb.where(), "can_try() no longer consults %s" % sorted({"last_try", "wait"} - got))
