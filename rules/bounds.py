"""Template T9: decoder panic-freedom.  (a) explicit panic sites; (b) every slice-range index call and every
MIR bounds-check assert is implied by comparison facts that hold on edges dominating the site (a tiny
difference-free order prover over symbolic terms: len(S), pure nullary calls, constants, root locals)."""
from mir import op_place, op_local, op_const, pl_local, pl_proj, callee_of
import guards, lib

PANICS = ("core::panicking::", "std::rt::begin_panic", "core::option::expect_failed", "core::result::unwrap_failed",
          "core::option::unwrap_failed", "core::slice::index::slice_", "core::str::slice_error_fail")
UNWRAPS = ("core::option::Option::<T>::unwrap", "core::option::Option::<T>::expect",
           "core::result::Result::<T, E>::unwrap", "core::result::Result::<T, E>::expect",
           "core::result::Result::<T, E>::unwrap_err", "core::result::Result::<T, E>::expect_err")
INDEX_FNS = ("core::slice::index::<impl core::ops::index::Index<I> for [T]>::index",
             "core::slice::index::<impl core::ops::index::IndexMut<I> for [T]>::index_mut",
             "core::ops::index::Index::index", "core::ops::index::IndexMut::index_mut",
             "core::str::traits::<impl core::ops::index::Index<I> for str>::index")
RANGES = {"core::ops::range::Range": ("start", "end"), "core::ops::range::RangeTo": (None, "end"),
          "core::ops::range::RangeFrom": ("start", None), "core::ops::range::RangeFull": (None, None),
          "core::ops::range::RangeInclusive": ("start", "end_incl"), "core::ops::range::RangeToInclusive": (None, "end_incl")}


def explicit_panics(body):
    out = []
    for bi, t in body.calls():
        c = callee_of(t)
        if c.startswith(PANICS) or c in UNWRAPS or t.get("fn") in UNWRAPS:
            if "debug_assert" in t.get("m", ""):
                continue   # present only in configurations with debug assertions; not the release semantics
            out.append((bi, c, t.get("m", "")))
    return out


class Terms:
    def __init__(self, body):
        self.b = body

    def slice_base(self, l, depth=0):
        """root local of a slice reference chain (&*x, copies)"""
        b = self.b
        for _ in range(8):
            d = b.single_def(l)
            if d is None:
                return l
            if d[2] == "assign":
                rv = d[3]
                if rv["k"] == "ref" and not isinstance(rv["pl"], int) and rv["pl"]["p"] == ["*"]:
                    l = rv["pl"]["l"]
                    continue
                if rv["k"] in ("use", "cast"):
                    nl = op_local(rv["a"])
                    if nl is None:
                        return l
                    l = nl
                    continue
                if rv["k"] == "ref" and isinstance(rv["pl"], int):
                    return ("local", rv["pl"])
            if d[2] == "call":
                t = d[3]
                fn = t.get("fn", "")
                if fn.endswith("Deref::deref") or fn.endswith("DerefMut::deref_mut") or fn.endswith("::as_slice") or fn.endswith("::as_ref"):
                    nl = op_local(t["args"][0])
                    if nl is not None:
                        l = nl
                        continue
            return l
        return l

    def term(self, op, depth=0):
        c = op_const(op)
        if c is not None:
            return ("const", c)
        l = op_local(op)
        if l is None:
            p = op_place(op)
            r = self._through_aggregates(p, depth) if depth < 10 else None
            if r is not None:
                return r
            return ("place", repr(p))
        return self.term_local(l, depth)

    def _leaf_defs(self, l, seen=None):
        """the aggregate rvalues that can be the value of local l (following plain moves); None if some definition is
        not an aggregate (a call result, a field read, ..)"""
        seen = seen or set()
        if l in seen:
            return []
        seen.add(l)
        out = []
        ds = self.b.defs().get(l, [])
        if not ds:
            return None
        for d in ds:
            if d[2] == "call" and (d[3].get("fn") or "").endswith("FromResidual::from_residual"):
                # `?` propagating a failure: the value is the residual variant (Err / None), never Ok / Some
                res = d[3].get("res") or ""
                out.append({"k": "agg", "ak": "adt", "var": "Err" if "Result<" in res else "None", "fn": [], "ops": []})
                continue
            if d[2] != "assign":
                return None
            rv = d[3]
            if rv["k"] == "agg":
                out.append(rv)
            elif rv["k"] == "use" and op_local(rv["a"]) is not None:
                sub = self._leaf_defs(op_local(rv["a"]), seen)
                if sub is None:
                    return None
                out += sub
            else:
                return None
        return out

    def _through_aggregates(self, pl, depth):
        """(x as V).field where every definition of x is an aggregate built in this (flattened) body: the field IS the
        operand the aggregate(s) building variant V were built from.  This is what makes a value returned through
        `Ok(Some(n))` by a spliced-in helper the same term as `n`.  Several candidate aggregates are followed in
        parallel (Ok(None) and Ok(Some(n)) both build `Ok`; only one of them survives the inner `as Some`); the result
        is used only when all surviving candidates agree on one term."""
        if not isinstance(pl, dict):
            return None
        out = self._ta(pl["l"], list(pl["p"]), depth, 0)
        if out is not None and len(out) == 1:
            return next(iter(out))
        return None

    def _ta(self, l, projs, depth, fuel):
        if fuel > 12 or depth > 10:
            return None
        for _ in range(8):
            ds = self.b.defs().get(l, [])
            # a plain copy of another place: continue from that place
            # (jump threading duplicates blocks: several textually identical definitions count as one)
            if ds and all(d[2] == "assign" and d[3]["k"] == "use" and op_place(d[3]["a"]) is not None and
                          op_place(d[3]["a"]) == op_place(ds[0][3]["a"]) for d in ds):
                q = op_place(ds[0][3]["a"])
                if isinstance(q, int):
                    l = q
                else:
                    l, projs = q["l"], list(q["p"]) + projs
                continue
            # `?`: (Try::branch(x) as Continue).0 is the payload of x's Ok / Some
            if ds and projs[:1] == ["d|Continue"] and all(d[2] == "call" and (d[3].get("fn") or "").endswith("Try::branch") for d in ds):
                srcs = {op_local(d[3]["args"][0]) for d in ds}
                ress = {d[3].get("res") or "" for d in ds}
                if len(srcs) == 1 and None not in srcs and len(ress) == 1:
                    res = next(iter(ress))
                    if "core::result::Result<" in res:
                        l, projs = next(iter(srcs)), ["d|Ok", "f|core::result::Result|Ok|0"] + projs[2:]
                        continue
                    if "core::option::Option<" in res:
                        l, projs = next(iter(srcs)), ["d|Some", "f|core::option::Option|Some|0"] + projs[2:]
                        continue
                return None
            break
        if not projs:
            return {self.term_local(l, depth + 1)}
        leaves = self._leaf_defs(l)
        if leaves is None:
            return None
        if len(projs) >= 2 and projs[0].startswith("d|") and projs[1].startswith("f|"):
            var, fld = projs[0][2:], projs[1].split("|", 3)[3]
            cands = [(rv, rv["fn"].index(fld)) for rv in leaves if rv.get("ak") == "adt" and rv.get("var") == var and fld in rv.get("fn", [])]
            rest = projs[2:]
        elif projs[0].startswith("t|"):
            if any(rv.get("ak") != "tuple" for rv in leaves):
                return None
            cands = [(rv, int(projs[0][2:])) for rv in leaves]
            rest = projs[1:]
        else:
            return None
        out = set()
        for rv, i in cands:
            op = rv["ops"][i]
            if not rest:
                out.add(self.term(op, depth + 1))
                continue
            npl = op_place(op)
            if npl is None:
                continue      # a literal has no such sub-place: this candidate cannot be the one being read
            sub = self._ta(npl if isinstance(npl, int) else npl["l"], ([] if isinstance(npl, int) else list(npl["p"])) + rest, depth + 1, fuel + 1)
            if sub is None:
                return None
            out |= sub
        return out


    def term_local(self, l, depth=0):
        b = self.b
        if depth > 10:
            return ("local", l)
        d = b.single_def(l)
        if d is None:
            return ("local", l)
        if d[2] == "assign":
            rv = d[3]
            if rv["k"] in ("use",):
                return self.term(rv["a"], depth + 1)
            if rv["k"] == "cast" and rv.get("ck") == "IntToInt":
                return self.term(rv["a"], depth + 1)
            if rv["k"] == "un" and rv["op"] == "PtrMetadata":
                pl = op_place(rv["a"])
                if pl is not None:
                    return ("len", self.slice_base(pl_local(pl)))
            return ("local", l)
        if d[2] == "call":
            t = d[3]
            fn = t.get("fn", "")
            if not t["args"]:
                return ("call", callee_of(t))
            if fn in ("core::slice::<impl [T]>::len", "alloc::vec::Vec::<T, A>::len", "core::str::<impl str>::len",
                      "alloc::string::String::len"):
                a = op_local(t["args"][0])
                return ("len", self.slice_base(a) if a is not None else None)
            if fn in ("core::cmp::Ord::min", "core::cmp::min"):
                return ("min", self.term(t["args"][0], depth + 1), self.term(t["args"][1], depth + 1))
        return ("local", l)


class Facts:
    """order facts  A <= B / A < B  available at a site"""

    def __init__(self, body, site_bb):
        self.b = body
        self.T = Terms(body)
        self.le = set()   # (A, B): A <= B
        self.lt = set()
        for bi, f, t, atom in guards.bool_switches(body):
            if atom[0] != "cmp" or f == t:
                continue
            for tgt in (f, t):
                if not lib.guarded_by(body, site_bb, [(bi, tgt)]):
                    continue
                rel = lib.relation_on_edge(body, bi, tgt)
                if rel is None:
                    continue
                op = rel[0]
                A, B = self.T.term(atom[2]), self.T.term(atom[3])
                self.add(op, A, B)

    def add(self, op, A, B):
        if op == "Le": self.le.add((A, B))
        elif op == "Lt": self.lt.add((A, B)); self.le.add((A, B))
        elif op == "Ge": self.le.add((B, A))
        elif op == "Gt": self.lt.add((B, A)); self.le.add((B, A))
        elif op == "Eq": self.le.add((A, B)); self.le.add((B, A))

    def proves_le(self, A, B, depth=0):
        if A == B:
            return True
        if A[0] == "const" and B[0] == "const":
            return A[1] <= B[1]
        if A[0] == "const" and A[1] == 0:
            return True
        if (A, B) in self.le:
            return True
        if A[0] == "min":
            if self.proves_le(A[1], B, depth + 1) or self.proves_le(A[2], B, depth + 1):
                return True
        if depth < 2:
            for (X, Y) in list(self.le):
                if X == A and Y != B and self.proves_le(Y, B, depth + 1):
                    return True
        return False

    def proves_lt(self, A, B):
        if A[0] == "const" and B[0] == "const":
            return A[1] < B[1]
        if (A, B) in self.lt:
            return True
        for (X, Y) in list(self.lt):
            if X == A and self.proves_le(Y, B):
                return True
        for (X, Y) in list(self.le):
            if X == A and Y != B and (Y, B) in self.lt:
                return True
        return False


def index_sites(body):
    """[(bb, kind, detail)] for slice-range index calls and bounds-check asserts"""
    out = []
    T = Terms(body)
    for bi, t in body.calls():
        fn = t.get("fn", "")
        if fn in INDEX_FNS or callee_of(t) in INDEX_FNS:
            out.append((bi, "index", t))
    for bi in sorted(body.reachable()):
        t = body.blocks[bi]["t"]
        if t["k"] == "assert" and t.get("msg") == "BoundsCheck":
            out.append((bi, "bounds", t))
    return out


def check_site(body, bi, kind, t):
    """returns (ok, explanation)"""
    T = Terms(body)
    F = Facts(body, bi)
    if kind == "bounds":
        cl = op_local(t["cond"])
        d = body.single_def(cl) if cl is not None else None
        if d and d[2] == "assign" and d[3]["k"] == "bin" and d[3]["op"] == "Lt":
            A, B = T.term(d[3]["a"]), T.term(d[3]["b"])
            if F.proves_lt(A, B):
                return True, "index %s < %s implied by dominating comparisons" % (A, B)
            return False, "bounds check %s < %s not implied by any dominating comparison" % (A, B)
        return False, "unrecognised bounds-check shape"
    # index call with a range operand
    sl = op_local(t["args"][0])
    S = T.slice_base(sl) if sl is not None else None
    rl = op_local(t["args"][1]) if len(t["args"]) > 1 else None
    d = body.single_def(rl) if rl is not None else None
    if not (d and d[2] == "assign" and d[3]["k"] == "agg" and d[3].get("adt") in RANGES):
        ty = body.locals[rl] if rl is not None else "?"
        if ty in ("usize",):
            A = T.term(t["args"][1])
            if F.proves_lt(A, ("len", S)):
                return True, "index %s < len implied" % (A,)
            return False, "element index %s not proven < len(%s)" % (A, S)
        return False, "range operand of unknown shape (%s)" % ty
    rv = d[3]
    names = rv["fn"]
    vals = {n: T.term(o) for n, o in zip(names, rv["ops"])}
    lenS = ("len", S)
    start = vals.get("start")
    end = vals.get("end")
    why = []
    if rv["adt"].endswith("RangeInclusive") or rv["adt"].endswith("RangeToInclusive"):
        return False, "inclusive range not supported"
    if end is not None:
        if not F.proves_le(end, lenS):
            return False, "range end %s not proven <= len(%s)" % (end, S)
        why.append("end %s <= len" % (end,))
    if start is not None:
        hi = end if end is not None else lenS
        if not F.proves_le(start, hi):
            return False, "range start %s not proven <= %s" % (start, hi)
        why.append("start %s <= %s" % (start, hi))
    return True, "; ".join(why) or "full range"
