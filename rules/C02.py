"""C02 - every received request gets exactly one well-formed answer (structural clauses)."""
import json, os
import bounds, cover, engine, guards, lib
from engine import Engine, Spec
from mir import callee_of, op_place, op_local, op_const, pl_local, proj_fields
import C01, C17

MUX = "sozu_lib::protocol::mux::"
MUXT = "<sozu_lib::protocol::mux::Mux<Front, L> as sozu_lib::protocol::SessionState>::"
SDA = (MUX + "answers::set_default_answer", MUX + "answers::set_default_answer_with_retry_after")
FTA = MUX + "answers::forcefully_terminate_answer"
HERE = os.path.dirname(os.path.abspath(__file__))


def status_consts(b, t, region=None, site=None):
    """constant status codes that may flow into the `code` operand of a set_default_answer* call; when a region
    (blocks between the error-class edge and the call) is given only assignments inside it are considered"""
    a = t["args"][2]
    c = op_const(a)
    if c is not None:
        return {c}
    sl = guards.slice_of_operand(b, a)
    out = set()
    if region is None:
        for x in sl["consts"]:
            sx = str(x)
            if sx.endswith("_u16"):
                out.add(int(sx[:-4]))
        return out
    for l in sl["locals"]:
        for d in b.defs().get(l, []):
            if d[2] == "assign" and d[3]["k"] == "use" and d[0] in region:
                v = op_const(d[3]["a"])
                if v is not None and str(d[3]["a"].get("ty")) == "u16":
                    out.add(v)
    return out


def run(F, chk):
    chk.explanation = (
        "Structural necessary conditions of 'exactly one well-formed answer per request' decided on MIR: (a) in the "
        "connection phase of Mux::ready every backend-connection error path installs exactly one default answer before the "
        "next pending stream is taken, with the status the property names for that error class; (b) every answer produced "
        "by Mux::timeout is followed by a frontend write pass before the function returns; (c) a timer that fired is re-armed "
        "on every path that keeps the session (returns Continue); (d) the H1 and H2 server end_stream implementations act on "
        "every EndStreamAction: the answering variants arm the writer (directly or through the answer helpers) and Reconnect "
        "re-queues the stream; the decision itself is taken only by shared::end_stream_decision.")
    chk.not_decided = "liveness under real timers, completeness of relayed bodies, isolation between streams at run time"
    tbl = json.load(open(os.path.join(HERE, "..", "tables", "C02.json")))
    rdy = lib.flat(F, F.body(MUXT + "ready"), keep=tuple(SDA) + (FTA, "::router::Router::connect"))      # the error->status mapping may live in a private helper
    # ---------------- R-C02-a --------------------------------------------------
    ra = chk.rule("R-C02-a", "T1+T7", "connect errors: exactly one default answer, with the mandated status", floor=8)
    ra.fn(rdy.path)
    conn = [(bi, t) for bi, t in rdy.calls() if callee_of(t).endswith("router::Router::connect")]
    pops = [bi for bi, t in rdy.calls() if callee_of(t).endswith("VecDeque::<T, A>::pop_front")]
    if ra.require(len(conn) == 1 and pops, "Mux::ready: Router::connect / pending_links.pop_front not found"):
        cbi, ct = conn[0]
        sw = C17.discr_switches(rdy, ct["dest"])
        if ra.require(sw, "Mux::ready: no switch on the result of Router::connect"):
            err_t = sw[0][1].get(1, sw[0][2])
            weight = {bi: 1 for bi, t in rdy.calls() if callee_of(t) in SDA}
            counts = lib.path_counts(rdy, weight, start=err_t, stops=set(pops))
            key = "%s|Err(connect) => one answer" % rdy.path
            if counts == {1}:
                ra.ok(key, rdy.where(cbi), "every path from the Err edge of Router::connect to the next pending stream installs exactly one default answer")
            else:
                ra.violation(key, rdy.where(cbi), "default answers installed per connect-error path: %s (want exactly one): a stream would stay in Link unanswered, or be answered twice" % sorted(counts))
            # status per error class
            def wrapper_of(inner_adt):
                """(enum, variant) of an error enum whose variant carries `inner_adt` as its payload"""
                for e_ in sorted({x["enum"] for x in tbl["status_by_error"]} | {"sozu_lib::BackendConnectionError", "sozu_lib::RetrieveClusterError"}):
                    if e_ == inner_adt or e_ not in F.adts:
                        continue
                    for v_ in F.adts[e_]["variants"]:
                        if any(inner_adt in f_["ty"] for f_ in v_["fields"]):
                            return e_, v_["name"]
                return None
            pending = [(ent["enum"], ent["variant"], ent["status"], "%s::%s => %d" % (ent["enum"].split("::")[-1], ent["variant"], ent["status"])) for ent in tbl["status_by_error"]]
            for adt, var, want, key0 in pending:
                hits = []
                try:
                    d = F.variant_discr(adt)[var]
                except Exception:
                    ra.broke("enum %s / variant %s not found" % (adt, var))
                    continue
                for bi in rdy.reachable():
                    t = rdy.blocks[bi]["t"]
                    if t["k"] != "switch" or bi not in rdy.reach_from([err_t], removed=pops):
                        continue
                    l = op_local(t["op"])
                    dd = rdy.single_def(l) if l is not None else None
                    if dd and dd[2] == "assign" and dd[3]["k"] == "discr" and dd[3]["adt"] == adt:
                        tg = [x for v, x in t["ts"] if int(v) == d] or [t["else"]]
                        hits.append((bi, tg[0]))
                key = key0
                if not hits:
                    ra.violation(key, rdy.where(cbi), "Mux::ready no longer distinguishes %s::%s when mapping connect errors to answers" % (adt.split("::")[-1], var))
                    continue
                codes = set()
                for sbi, tgt in hits:
                    region = rdy.reach_from([tgt], removed=pops)
                    # the part of the region that belongs to this variant alone: what other arms of the same match can
                    # reach as well (a join behind a match that only logs, the shared answer call) says nothing
                    # about this variant
                    tsw = rdy.blocks[sbi]["t"]
                    others = [x for _, x in tsw["ts"] if x != tgt] + ([tsw["else"]] if tsw["else"] != tgt else [])
                    shared = rdy.reach_from(others, removed=pops) if others else set()
                    for bi, t in rdy.calls():
                        if bi in region and callee_of(t) in SDA:
                            # nearest answers only: those not dominated by another answer call inside the region
                            if first_answer(rdy, tgt, bi, weight):
                                between = {x for x in region if bi in rdy.reach_from([x], removed=pops)}
                                if bi in shared:
                                    # answer call shared between the arms: only constants set on this arm's own blocks
                                    # count; an arm that shares its block with sibling patterns (`A | B(_) => 503`) takes
                                    # the first status assignment met from its target, not looking past another match on
                                    # an error enum
                                    own = status_consts(rdy, t, between - shared, bi)
                                    if not own:
                                        err_adts = {e_["enum"] for e_ in tbl["status_by_error"]}
                                        code_locals = guards.slice_of_operand(rdy, t["args"][2])["locals"]
                                        seen_, todo_ = {tgt}, [tgt]
                                        while todo_:
                                            x_ = todo_.pop()
                                            got_ = set()
                                            for st_ in rdy.blocks[x_]["s"]:
                                                if isinstance(st_.get("lhs"), int) and st_["lhs"] in code_locals and st_["rv"]["k"] == "use" \
                                                        and op_const(st_["rv"]["a"]) is not None and str(st_["rv"]["a"].get("ty")) == "u16":
                                                    got_.add(op_const(st_["rv"]["a"]))
                                            if got_:
                                                own |= got_
                                                continue
                                            tt_ = rdy.blocks[x_]["t"]
                                            if tt_["k"] == "switch" and x_ != tgt:
                                                l_ = op_local(tt_["op"])
                                                d_ = rdy.single_def(l_) if l_ is not None else None
                                                if d_ and d_[2] == "assign" and d_[3]["k"] == "discr" and d_[3]["adt"] in err_adts:
                                                    continue
                                            for y_ in rdy.succ()[x_]:
                                                if y_ not in seen_ and y_ in between:
                                                    seen_.add(y_); todo_.append(y_)
                                    if own:
                                        codes |= own
                                else:
                                    codes |= status_consts(rdy, t, between, bi)
                if not codes:
                    # the mapping does not look inside this enum (`Wrapper(_) => status`): the status of the variant that
                    # carries it decides
                    w_ = wrapper_of(adt)
                    if w_ and (w_[0], w_[1]) != (adt, var) and not key0.endswith("(via wrapper)"):
                        pending.append((w_[0], w_[1], want, key0 + " (via wrapper)"))
                        continue
                if codes == {want}:
                    ra.ok(key, rdy.where(hits[0][0]), "answered with %d" % want)
                else:
                    ra.violation(key, rdy.where(hits[0][0]), "%s::%s is answered with %s instead of %d" % (adt.split("::")[-1], var, sorted(codes), want))
    answer_replaces_partial_response(F, chk)
    keepalive_rule(F, chk)
    goaway_boundary_rule(F, chk)
    # ---------------- R-C02-b / c (path engine on Mux::timeout) -----------------------
    rb = chk.rule("R-C02-b", "T3(path engine)", "answers produced by Mux::timeout are followed by a frontend write pass", floor=1)
    rc = chk.rule("R-C02-c", "T3(path engine)", "a fired timer is re-armed on every path that keeps the session", floor=1)
    to = F.body(MUXT + "timeout")
    rb.fn(to.path); rc.fn(to.path)

    class TS(Spec):
        nvec = 4   # answers, frontend writable passes, timers triggered, timers set
        state_limit = 1500000

        def event(self, eng, body, bi, t, argv, val):
            c = callee_of(t)
            fn = t.get("fn", "")
            if c in SDA or c == FTA:
                return [((1, 0, 0, 0), None)]
            if c.endswith("connection::Connection::<Front>::writable") or fn.endswith("Connection::<Front>::writable"):
                return [((0, 1, 0, 0), None)]
            if c.endswith("TimeoutContainer::triggered"):
                return [((0, 0, 1, 0), None)]
            if c.endswith("TimeoutContainer::set"):
                return [((0, 0, 0, 1), None)]
            return None

        def view(self, eng, body):
            # private helpers of Mux (a tail of timeout() moved into its own method, ...) are explored as part of it
            import inline
            keep = lambda fn: (fn in SDA or fn == FTA or fn.endswith(("Connection::<Front>::writable", "TimeoutContainer::triggered", "TimeoutContainer::set")))
            return inline.inlined(F, body, keep_pred=keep, depth=2, budget=400)
    e = Engine(F, TS())
    to = e.spec.view(e, to)
    try:
        res = e.explore(to, None)
    except engine.Explosion as ex:
        rb.broke(str(ex)); rc.broke(str(ex))
        res = set()
    chk.extra["C02_timeout_states"] = e.states
    bad_b = sorted({v for v, r in res if v[0] >= 1 and v[1] == 0})
    if res and not bad_b:
        rb.ok("%s|answer=>writable" % to.path, to.where(), "on all %d path classes an installed answer is followed by Connection::writable before return" % len(res))
    elif res:
        rb.violation("%s|answer=>writable" % to.path, to.where(), "a path of Mux::timeout installs an answer (408/503/504/terminate) and returns without running the frontend write pass: (answers, writes, triggered, set) = %s" % bad_b)
    cont = [(v, r) for v, r in res if isinstance(r, tuple) and r[0] == "var" and r[2] == "Continue"]
    unknown = [(v, r) for v, r in res if not (isinstance(r, tuple) and r[0] == "var")]
    bad_c = sorted({v for v, r in cont if v[2] >= 1 and v[3] == 0})
    if unknown:
        rc.broke("return value of Mux::timeout not resolved on some paths: %s" % unknown[:3])
    elif res and not bad_c:
        rc.ok("%s|triggered=>set when Continue" % to.path, to.where(), "every path returning Continue after TimeoutContainer::triggered() passes TimeoutContainer::set(); %d Continue path classes" % len(cont))
    elif res:
        rc.violation("%s|triggered=>set when Continue" % to.path, to.where(), "Mux::timeout can return Continue after a timer fired without re-arming any timer: the session would never be timed out again: %s" % bad_c)
    # ---------------- R-C02-d --------------------------------------------------------
    rd = chk.rule("R-C02-d", "T3+T4", "H1 and H2 end_stream act on every EndStreamAction", floor=10)
    summ = C01.ArmSummary(F, extra=set(SDA) | {FTA})
    ESA = MUX + "shared::EndStreamAction"
    esd = MUX + "shared::end_stream_decision"
    # the users of the decision: callers of end_stream_decision, looking through thin wrappers that merely return it
    # (a wrapper that counts / logs the decision is part of its caller)
    direct = F.call_sites(esd)
    roots = []
    for b0, _, _ in direct:
        if b0.locals[0] == ESA and not b0.rec.get("pub"):
            roots += [x[0] for x in F.call_sites(b0.path)]
        else:
            roots.append(b0)
    users = []
    for b0 in {x.path: x for x in roots}.values():
        fb = lib.flat(F, b0, keep=(esd,))
        users += [(fb, bi, t) for bi, t in fb.calls() if callee_of(t) == esd]
    rd.require(len(users) == 2, "expected 2 users of end_stream_decision (H1, H2), found %d" % len(users))
    for b, bi, t in users:
        rd.fn(b.path)
        carriers = {t["dest"]} if isinstance(t.get("dest"), int) else set()
        grew = True
        while grew:
            grew = False
            for _, _, st in b.stmts():
                rv = st.get("rv")
                if rv and rv["k"] == "use" and isinstance(st.get("lhs"), int) and op_local(rv["a"]) in carriers and st["lhs"] not in carriers:
                    carriers.add(st["lhs"])
                    grew = True
        sw = [x for c in sorted(carriers) for x in C17.discr_switches(b, c)]
        if not sw:
            rd.broke("%s: no switch on the EndStreamAction" % b.path)
            continue
        sbi, tg, el = sw[0]
        arms = summ.arm_blocks(b)
        requeue = [x for x, tt in b.calls() if callee_of(tt).endswith("VecDeque::<T, A>::push_back") and
                   any(f == "pending_links" for _, f in guards.slice_of_operand(b, tt["args"][0])["fields"])]
        for var, d in sorted(F.variant_discr(ESA).items()):
            key = "%s|%s" % (b.path, var)
            if d not in tg:
                rd.violation(key, b.where(sbi), "EndStreamAction::%s has no explicit arm in %s" % (var, b.path.split("::")[-2]))
                continue
            ev = requeue if var == "Reconnect" else arms
            cut = b.reach_from([tg[d]], removed=ev)
            if ev and not [r for r in b.returns() if r in cut]:
                rd.ok(key, b.where(tg[d]), "every path %s" % ("re-queues the stream on pending_links" if var == "Reconnect" else "arms the frontend writer / installs an answer"))
            else:
                rd.violation(key, b.where(tg[d]), "on EndStreamAction::%s a path returns without %s" % (var, "re-queueing the stream" if var == "Reconnect" else "arming the writer: the end of the response is never flushed to the client"))
    # only end_stream_decision inspects back.is_main_phase() to choose between answer and retry
    mp = [b.path for b, bi, t in F.call_sites("kawa::storage::repr::Kawa::<T>::is_main_phase") if "end_stream" in b.path and b.path != esd]
    if mp:
        rd.violation("is_main_phase in end_stream", "", "an end_stream implementation inspects is_main_phase() itself instead of going through shared::end_stream_decision: %s" % mp)
    else:
        rd.ok("is_main_phase in end_stream", "", "the 502-vs-retry decision is taken only in shared::end_stream_decision", nontrivial=False)


def answer_replaces_partial_response(F, chk):
    """R-C02-e: a default answer *replaces* whatever the backend had partially produced: wherever a rendered answer
    is copied into a stream's back kawa, both the block list (Kawa::clear) and the storage (Buffer::clear) of that
    kawa were cleared on every path before."""
    import alias
    r = chk.rule("R-C02-e", "T3", "a default answer is written into a cleared response kawa", floor=2)
    sites = F.call_sites(MUX + "answers::copy_default_answer_to_stream")
    r.require(sites, "no caller of copy_default_answer_to_stream found")
    for b, bi, t in sites:
        if b.path.endswith("tests") or "::tests::" in b.path:
            continue
        r.fn(b.path)
        og = alias.Origins(b)
        def clears(suffix):
            out = []
            for x, tt in b.calls():
                if callee_of(tt).endswith(suffix) and tt["args"]:
                    p0 = op_place(tt["args"][0])
                    if p0 is not None and any(any(f == "back" for _, f in path) for (_, path) in og.of(pl_local(p0))):
                        out.append(x)
            return out
        for what, suffix in (("block list (Kawa::clear)", "repr::Kawa::<T>::clear"), ("storage (Buffer::clear)", "buffer::Buffer::<T>::clear")):
            cl = clears(suffix)
            key = "%s|%s before answer" % (b.path, what.split()[0])
            if cl and bi not in b.reach_from([0], removed=cl):
                r.ok(key, b.where(bi), "every path to the answer copy clears the response %s first" % what)
            else:
                r.violation(key, b.where(bi), "a default answer is copied into the stream's response kawa on a path that did not clear its %s: blocks/bytes of a partially received backend response stay in front of the answer (malformed answer, or a panic in the H1 writer)" % what)


def first_answer(b, start, site, weight):
    """site is reachable from start without passing another answer call first"""
    others = [x for x in weight if x != site]
    return site in b.reach_from([start], removed=others)


def keepalive_rule(F, chk, rid="R-C02-f"):
    """R-C02-f: an HTTP/1 backend connection is parked for reuse (BackendStatus::KeepAlive) only when the response on
    it is over: every construction of BackendStatus::KeepAlive lies on the true edge of Kawa::is_terminated() of a
    `back` kawa.  `drained so far` (is_completed) is not `ended`: a stream reset in the middle of a response would leave
    the rest of that response on the socket, to be parsed as the answer to the next request that reuses it."""
    r = chk.rule(rid, "T5", "a backend connection is kept for reuse only after its response terminated", floor=1)
    n = 0
    for b in F.grep('"var":"KeepAlive"'):
        if b.derived or not (b.path.startswith(MUX) or b.path.startswith("<" + MUX)):
            continue
        fb = lib.flat(F, b)
        sites = [(bi, si) for bi, si, st in fb.stmts() if st.get("rv", {}).get("k") == "agg" and st["rv"].get("var") == "KeepAlive"
                 and st["rv"].get("adt", "").endswith("BackendStatus")]
        if not sites:
            continue
        r.fn(b.path)
        def pred(sb, truth, atom):
            if atom[0] != "call" or not atom[1].endswith("::is_terminated") or truth is not True:
                return False
            return any(f == "back" for a in atom[2]["args"] for _, f in guards.slice_of_operand(fb, a)["fields"])
        edges = lib.edges_where(fb, pred)
        for i, (bi, si) in enumerate(sites):
            n += 1
            key = "%s|KeepAlive#%d behind back.is_terminated()" % (b.path, i)
            if edges and lib.guarded_by(fb, bi, edges):
                r.ok(key, fb.where(bi, si), "only on the true edge of back.is_terminated()")
            else:
                r.violation(key, fb.where(bi, si), "the backend connection is marked KeepAlive without the response on it being terminated: after a mid-response reset the leftover bytes are read as the next request's answer")
    r.require(n >= 1, "no construction of BackendStatus::KeepAlive found in the mux")


def goaway_boundary_rule(F, chk):
    """R-C02-g: GOAWAY(last_stream_id = N) says streams <= N were or will be processed by the peer.  Only streams with an id
    STRICTLY greater than N may be taken off the connection to be retried / refused; taking N itself drops the response
    the peer is still going to send for it (the client gets no answer)."""
    r = chk.rule("R-C02-g", "T5", "on GOAWAY only streams above last_stream_id are retried", floor=1)
    cands = [p for p in F.paths() if p.startswith(MUX + "h2::ConnectionH2") and p.endswith("::handle_goaway_frame")]
    if not r.require(cands, "ConnectionH2::handle_goaway_frame not found"):
        return
    b = lib.flat(F, F.body(cands[0]))
    r.fn(b.path)
    strict, loose = [], []
    for sb, f, t, atom in guards.bool_switches(b):
        if atom[0] != "cmp":
            continue
        for tgt in (f, t):
            rel = lib.relation_on_edge(b, sb, tgt)
            if not rel:
                continue
            op, sa, sbb, at = rel
            a_last = lib.is_field_value(b, at[2], "last_stream_id")
            b_last = lib.is_field_value(b, at[3], "last_stream_id")
            if a_last == b_last:
                continue
            if a_last:
                op = {"Lt": "Gt", "Gt": "Lt", "Le": "Ge", "Ge": "Le"}.get(op, op)
            if op == "Gt":
                strict.append((sb, tgt))
            elif op == "Ge":
                loose.append((sb, tgt))
    pushes = [bi for bi, t in b.calls() if callee_of(t).endswith(("Vec::<T, A>::push", "::push_back", "::insert")) and
              (strict or loose) and any(lib.guarded_by(b, bi, [e]) for e in strict + loose)]
    key = "%s|retry set = ids > last_stream_id" % b.path
    if not r.require(strict or loose, "handle_goaway_frame: no comparison with goaway.last_stream_id found"):
        return
    if loose and not strict:
        r.violation(key, b.where(loose[0][0]), "streams are selected for retry with `id >= last_stream_id`: the stream the peer named as the last one it processes is taken off the connection and its response is dropped")
    elif loose:
        r.violation(key, b.where(loose[0][0]), "a comparison `id >= last_stream_id` selects streams on GOAWAY")
    else:
        r.ok(key, b.where(strict[0][0]), "streams are selected with `id > last_stream_id` (%d site(s))" % len(strict))
