#!/bin/sh
exit 0
