#!/bin/sh
# Builds the fact-extractor driver (offline, nightly) and pre-warms the dependency build
# of the primary configuration so that quick checks only re-check the workspace members.
set -e
cd "$(dirname "$0")"
export CARGO_NET_OFFLINE=true
(cd driver && cargo +nightly build --offline)
python3 rules/facts.py Q >/dev/null
echo "setup ok"
