#!/opt/veriftools/pyvenv/bin/python
import json, glob, jsonschema, sys
jsonschema.validate(json.load(open('/verif/MANIFEST.json')), json.load(open('/root/.vp/MANIFEST.schema.json')))
sch = json.load(open('/root/.vp/EVIDENCE.schema.json'))
for f in sorted(glob.glob('/verif/evidence/C??.json')):
    jsonschema.validate(json.load(open(f)), sch)
print('manifest + %d evidence files valid' % len(glob.glob('/verif/evidence/C??.json')))
