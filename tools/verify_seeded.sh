#!/bin/sh
# usage: tools/verify_seeded.sh <worktree> "<demo test command>" "<crate test command>"
# Confirms in the scratch worktree: patch applies to clean HEAD, workspace builds with it, the crate's own tests pass
# with it, the demonstration fails with the patch and passes without it.
WT="$1"; DEMO="$2"; CRATE="$3"
cd "$WT" || exit 2
export CARGO_NET_OFFLINE=true
# start from clean HEAD + demo only
git reset -q; git checkout -q -- . ; git clean -fdq -e MUTANT -e target
git apply --check MUTANT/patch.diff || { echo "PATCH DOES NOT APPLY"; exit 1; }
git apply MUTANT/demo.diff || { echo "DEMO DOES NOT APPLY"; exit 1; }
echo "--- demo WITHOUT the change (must pass)"
sh -c "$DEMO" > /tmp/vs_without.log 2>&1; r1=$?; tail -3 /tmp/vs_without.log
git apply MUTANT/patch.diff
echo "--- build WITH the change"
cargo build --workspace --offline > /tmp/vs_build.log 2>&1; rb=$?; tail -1 /tmp/vs_build.log
echo "--- demo WITH the change (must fail)"
sh -c "$DEMO" > /tmp/vs_with.log 2>&1; r2=$?; tail -3 /tmp/vs_with.log
echo "--- crate tests WITH the change (must pass)"
sh -c "$CRATE" > /tmp/vs_crate.log 2>&1; r3=$?; grep -E "^test result|FAILED|failed" /tmp/vs_crate.log | tail -5
echo "RESULT without=$r1 build=$rb with=$r2 crate=$r3"
[ $r1 -eq 0 ] && [ $rb -eq 0 ] && [ $r2 -ne 0 ] && [ $r3 -eq 0 ] && echo CONFIRMED || echo NOT-CONFIRMED
