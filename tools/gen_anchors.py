#!/usr/bin/env python3
"""Freezes the reference tree's inventory of functions and struct fields into tables/anchors.json.
The loader uses it to recognise a *renamed* private function or field (present in the table, absent from the tree, while a
function/field of the same parent and shape that the table does not know has appeared) and presents it to the rules under
its reference name.  Run on the unchanged tree only:  python3 tools/gen_anchors.py"""
import json, os, re, sys
sys.path.insert(0, "/verif/rules")
import facts, mir

F = mir.Facts(facts.facts_dir("Q"), ("sozu_command_lib-lib", "sozu_lib-lib", "sozu-bin"), normalise=False)
fns = {}
for p in sorted(F.raw):
    if "{closure" in p or "{promoted" in p:
        continue
    b = F.body(p)
    if b.derived:
        continue
    fns[p] = mir.fn_fingerprint(b)
fields = {}
for ap, a in sorted(F.adts.items()):
    for v in a["variants"]:
        for f in v["fields"]:
            fields.setdefault(ap, {}).setdefault(v["name"], {})[f["name"]] = f["ty"]
out = {"_doc": __doc__, "fns": fns, "fields": fields}
json.dump(out, open("/verif/tables/anchors.json", "w"), indent=0, sort_keys=True)
print("functions %d, adts %d" % (len(fns), len(fields)))
