#!/bin/sh
# usage: tools/collect_benign.sh <worktree-name> <prop> <round-tag>  -- keeps MUTANT/benign*.diff under benign/, removes the worktree
W=/var/tmp/wt/$1; P=$2; R=$3
cd /verif
for f in $W/MUTANT/benign*.diff; do
  n=$(basename $f .diff | sed 's/benign//')
  d=benign/${P}_${R}_$n; mkdir -p $d; cp $f $d/patch.diff
done
cp $W/MUTANT/README.md benign/${P}_${R}_README.md 2>/dev/null
git -C /repo worktree remove --force $W; rm -rf $W $W.prompt
ls -d benign/${P}_${R}_*
