#!/usr/bin/env python3
"""pretty-print the MIR facts of functions matching a regex (debug aid)"""
import sys, os, json
sys.path.insert(0, os.path.join(os.path.dirname(os.path.abspath(__file__)), "..", "rules"))
import facts, mir
from mir import place_str

def ops(o):
    p = mir.op_place(o)
    if p is not None:
        return ("move " if "mv" in o else "") + place_str(p)
    return "const " + o["c"][:60]

def rvs(rv):
    k = rv["k"]
    if k == "use": return ops(rv["a"])
    if k in ("ref", "raw"): return ("&mut " if rv["m"] else "&") + place_str(rv["pl"])
    if k == "bin": return "%s(%s, %s)" % (rv["op"], ops(rv["a"]), ops(rv["b"]))
    if k == "un": return "%s(%s)" % (rv["op"], ops(rv["a"]))
    if k == "discr": return "discriminant(%s) [%s]" % (place_str(rv["pl"]), rv["adt"])
    if k == "cast": return "%s as %s (%s)" % (ops(rv["a"]), rv["ty"][:50], rv["ck"])
    if k == "agg":
        if rv["ak"] == "adt": return "%s::%s{%s}" % (rv["adt"].split("::")[-1], rv["var"], ", ".join(ops(o) for o in rv["ops"]))
        return "%s(%s)" % (rv.get("clo", rv["ak"]), ", ".join(ops(o) for o in rv["ops"]))
    return json.dumps(rv)[:100]

def show(b):
    print("fn %s  [%s:%d] argc=%d" % (b.path, b.file, b.line, b.argc))
    print("  names:", ", ".join("%s=%s" % (n, place_str(p)) for n, p in b.names))
    if "-t" in sys.argv:
        for i, t in enumerate(b.locals): print("  _%d: %s" % (i, t))
    for bi, blk in enumerate(b.blocks):
        if bi not in b.reachable(): continue
        print("  bb%d:" % bi)
        for s in blk["s"]:
            if "lhs" in s: print("    %s = %s   // %d" % (place_str(s["lhs"]), rvs(s["rv"]), s["ln"]))
            else: print("    setdiscr %s = %d" % (place_str(s["setd"]), s["vi"]))
        t = blk["t"]; k = t["k"]
        if k == "call":
            print("    %s = %s(%s) -> %s   // %s%s" % (place_str(t["dest"]) if "dest" in t else "_", mir.callee_of(t), ", ".join(ops(a) for a in t["args"]), t["to"], t["ln"], (" m=" + t["m"]) if t.get("m") else ""))
        elif k == "switch":
            print("    switch %s -> %s else %s   // %s" % (ops(t["op"]), t["ts"], t["else"], t["ln"]))
        elif k == "drop": print("    drop %s -> %d" % (place_str(t["pl"]), t["to"]))
        elif k == "assert": print("    assert(%s == %s, %s) -> %d" % (ops(t["cond"]), t["exp"], t["msg"], t["to"]))
        elif k == "goto": print("    goto %d" % t["to"])
        else: print("    " + k)

if __name__ == "__main__":
    cfg = "Q"
    F = mir.Facts(facts.facts_dir(cfg))
    for b in F.find(sys.argv[1]):
        show(b); print()
