#!/bin/sh
# usage: tools/verify_benign.sh <worktree> <n> "<crate test cmd>"   -- confirms benign<n>.diff applies to clean HEAD, builds, crate tests pass
WT="$1"; N="$2"; CRATE="$3"
cd "$WT" || exit 2
export CARGO_NET_OFFLINE=true
git reset -q; git checkout -q -- . ; git clean -fdq -e MUTANT -e target
git apply MUTANT/benign$N.diff || { echo "PATCH DOES NOT APPLY"; exit 1; }
cargo build --workspace --offline > /tmp/vb_build.log 2>&1; rb=$?; tail -1 /tmp/vb_build.log
sh -c "$CRATE" > /tmp/vb_crate.log 2>&1; r3=$?; grep -E "^test result|FAILED|failed" /tmp/vb_crate.log | tail -5
git checkout -q -- . ; git clean -fdq -e MUTANT -e target
echo "RESULT build=$rb crate=$r3"
