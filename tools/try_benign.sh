#!/bin/sh
# usage: tools/try_benign.sh <patch.diff> [Cxx ...]   -- applies a behaviour-preserving change to /repo, runs the given
# (default: all claimed) quick checks, restores /repo.  Every check is expected to exit 0; prints the ones that do not.
P="$(realpath "$1")"; shift
cd /verif
CH="$@"
[ -z "$CH" ] && CH=$(python3 -c "import json;print(' '.join(x['property_id'] for x in json.load(open('MANIFEST.json'))['checks']))")
git -C /repo diff --quiet || { echo "REFUSING: /repo working tree is dirty"; exit 3; }
git -C /repo apply "$P" || { echo "patch does not apply"; exit 3; }
trap 'git -C /repo checkout -- . ; git -C /repo clean -fdq -- . 2>/dev/null' EXIT
rc=0
for c in $CH; do
  ./check "$c" --tier quick > /tmp/try_benign_$c.out 2>&1
  r=$?
  if [ $r -ne 0 ]; then rc=1; echo "  ALARM $c exit=$r"; grep -E "VIOLATION|BROKEN|^  violation" /tmp/try_benign_$c.out | cut -c1-400 | head -6; fi
done
[ $rc -eq 0 ] && echo "  quiet"
exit $rc
