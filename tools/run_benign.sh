#!/bin/sh
# usage: tools/run_benign.sh   -- applies every kept behaviour-preserving change in turn and runs ALL claimed quick checks on it.
# Expect "quiet" for every line; an ALARM line is a false alarm of the machinery.
cd /verif
for d in benign/*/; do
  [ -f "$d/patch.diff" ] || continue
  r=$(tools/try_benign.sh $d/patch.diff 2>&1 | tr '\n' ' ' | cut -c1-400)
  echo "$(basename $d) $r"
done
