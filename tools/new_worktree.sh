#!/bin/sh
# usage: tools/new_worktree.sh <name>   -> /var/tmp/wt/<name> (git worktree of /repo HEAD) with its own warm target dir
set -e
N="$1"; D=/var/tmp/wt/$N
mkdir -p /var/tmp/wt
git -C /repo worktree add --detach "$D" HEAD >/dev/null 2>&1
rsync -a --exclude nextest --exclude incremental --exclude "deps/*sozu*" --exclude "debug/sozu*" /repo/target/ "$D/target/"
echo "$D"
