#!/bin/sh
# runs every claimed check (tier $1, default quick) and prints one line each
T=${1:-quick}
cd /verif
for c in $(python3 -c "import json;print(' '.join(x['property_id'] for x in json.load(open('MANIFEST.json'))['checks']))"); do
  ./check $c --tier $T 2>&1 | grep -E "^C[0-9][0-9] tier|VIOLATION|BROKEN" | cut -c1-200
done
