#!/bin/sh
# usage: tools/run_seeded.sh [quick|thorough]   -- applies every kept seeded change and every self-written mutant to /repo in turn,
# runs the check of the property it breaks, restores /repo; prints one line per change. Expect exit=1 for every line.
cd /verif
for d in seeded/S*; do
  p=$(python3 -c "import json;print(json.load(open('$d/meta.json'))['breaks_property'])")
  r=$(tools/try_mutant.sh $d/patch.diff $p 2>&1 | grep -E "^== " | tr '\n' ' ')
  echo "$(basename $d) $r"
done
# self-written mutants (m03 turned out not to break its property and is expected to stay quiet)
for f in selftest/m*.diff; do
  p=$(basename $f | sed -E 's/^m[0-9]+_(C[0-9]+)_.*/\1/')
  r=$(tools/try_mutant.sh $f $p 2>&1 | grep -E "^== " | tr '\n' ' ')
  echo "$(basename $f) $r"
done
