#!/usr/bin/env python3
import json, sys
pid, wt = sys.argv[1], sys.argv[2]
hint = sys.argv[3] if len(sys.argv) > 3 else ""
for l in open('/verif/properties.jsonl'):
    p = json.loads(l)
    if p['id'] == pid:
        break
anch = "; ".join("%s (%s)" % (m['name'], m['where']) for m in p['anchors'].get('mechanism', []))
files = ", ".join(p['anchors'].get('files', []))
kind = sys.argv[4] if len(sys.argv) > 4 else ''
t = open({'benign': '/verif/tools/agent_prompt_benign.txt', 'benign2': '/verif/tools/agent_prompt_benign2.txt'}.get(kind, '/verif/tools/agent_prompt.txt')).read()
print(t.replace('{WT}', wt).replace('{TITLE}', p['title']).replace('{STATEMENT}', p['statement'])
      .replace('{QUANTIFIER}', p['quantifier']['text']).replace('{ANCHORS}', "files: " + files + ". mechanisms: " + anch)
      .replace('{HINT}', ("Suggestion for where to look (you may choose otherwise): " + hint) if hint else ""))
