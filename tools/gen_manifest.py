#!/usr/bin/env python3
"""Regenerates MANIFEST.json from tools/claims.json (per-property claim texts)."""
import json, os
V = os.path.dirname(os.path.dirname(os.path.abspath(__file__)))
props = [json.loads(l)["id"] for l in open(os.path.join(V, "properties.jsonl"))]
claims = json.load(open(os.path.join(V, "tools", "claims.json")))
checks, na = [], []
for p in props:
    c = claims.get(p)
    if c and c.get("claimed"):
        checks.append({
            "property_id": p,
            "quick_cmd": "./check %s --tier quick" % p,
            "thorough_cmd": "./check %s --tier thorough" % p,
            "evidence_file": "/verif/evidence/%s.json" % p,
            "replay_cmd_template": "./check %s --replay {path}" % p,
            "engine": "sozu-facts+rules",
            "level_claimed": {"category": "other", "text": c["text"], "design_ref": c.get("design_ref", "DESIGN.md section 4 " + p)},
            "level_note": c["note"],
            "technique": c["technique"],
        })
    else:
        na.append({"property_id": p, "reason": (c or {}).get("reason", "check not implemented yet (work in progress)")})
m = {
    "version": 1,
    "setup_cmd": "./setup.sh",
    "hooks": {"guard": "sozu_verif", "enable": "none: static analysis reads /repo's working tree as it is; no hook commits exist",
              "baseline_off_cmd": "cd /repo && cargo test --workspace --no-fail-fast --offline",
              "source_commits": [], "add_only": True},
    "engines": [
        {"name": "sozu-facts", "path": "driver/", "serves_properties": [c["property_id"] for c in checks],
         "kind_free_text": "rustc_private driver (nightly) injected with RUSTC_WORKSPACE_WRAPPER under cargo +nightly check; dumps MIR CFG, resolved callees, named field projections, discriminant switches, constants, ADT/impl tables of the three workspace crates as JSON lines"},
        {"name": "rules", "path": "rules/", "serves_properties": [c["property_id"] for c in checks],
         "kind_free_text": "python3 stdlib rule engine over the MIR facts: dominance / edge-removal reachability, path counting with variant specialisation, points-into analysis, who-may-write, field/variant coverage, sibling agreement, constant relations"},
    ],
    "checks": checks,
    "not_applicable": na,
    "notes": "Static analysis only. Each claimed property is decided for the structural clauses listed in its level text (necessary conditions of the behaviour); the undecided behavioural remainder is stated in level_note and in evidence.coverage.not_decided. Exit 0 pass, 1 + VIOLATION line, 2 + BROKEN line when an anchor or floor is missing (fail closed).",
}
json.dump(m, open(os.path.join(V, "MANIFEST.json"), "w"), indent=1)
print("claimed:", [c["property_id"] for c in checks])
