#!/bin/sh
# usage: tools/try_mutant.sh <patch.diff> <Cxx> [Cyy ...]
# applies the patch to /repo's working tree, runs the given quick checks, restores the tree.
set -u
P="$(realpath "$1")"; shift
cd /verif
git -C /repo diff --quiet || { echo "REFUSING: /repo working tree is dirty"; exit 3; }
git -C /repo apply "$P" || { echo "patch does not apply"; exit 3; }
trap 'git -C /repo checkout -- . ; git -C /repo clean -fdq -- . 2>/dev/null' EXIT
rc=0
for c in "$@"; do
  ./check "$c" --tier quick > /tmp/try_mutant_$c.out 2>&1
  r=$?
  echo "== $c exit=$r"; grep -E "VIOLATION|BROKEN|^  violation" /tmp/try_mutant_$c.out | cut -c1-300 | head -8
  [ $r -ne 0 ] && rc=1
done
exit $rc
