#!/usr/bin/env python3
"""usage: keep_seeded.py <id> <worktree> <property> "<needs>" "<what I ran>" "<caught by>" """
import json, os, shutil, sys
sid, wt, prop, needs, ran, caught = sys.argv[1:7]
d = "/verif/seeded/%s" % sid
os.makedirs(d, exist_ok=True)
for f in ("patch.diff", "demo.diff", "README.md"):
    shutil.copy(os.path.join(wt, "MUTANT", f), os.path.join(d, f))
json.dump({"id": sid, "breaks_property": prop, "needs_to_manifest": needs, "what_i_ran": ran,
           "caught_by": caught, "origin": "written independently by a sub-agent given only the property text and a scratch worktree"},
          open(os.path.join(d, "meta.json"), "w"), indent=1)
print("kept", d)
