#!/usr/bin/env python3
"""Runs the repository's pinned test suite on /repo (guard off - there is none) and compares with
BASELINE.json's stable_pass list.  usage: tools/baseline_check.py [--no-run]"""
import json, subprocess, sys, xml.etree.ElementTree as ET
base = json.load(open("/root/.vp/BASELINE.json"))
stable = set(base["stable_pass"])
if "--no-run" not in sys.argv:
    subprocess.run("cd /repo && cargo nextest run --workspace --no-fail-fast --tool-config-file pb:/w/lib/nextest.toml "
                   "--profile pb --test-threads 8 --offline > /var/tmp/baseline_run.log 2>&1", shell=True)
root = ET.parse("/repo/target/nextest/pb/junit.xml").getroot()
passed, failed = set(), set()
for tc in root.iter("testcase"):
    tid = (tc.get("classname") or "") + "::" + (tc.get("name") or "")
    if tc.find("failure") is not None or tc.find("error") is not None or tc.find("flakyFailure") is not None:
        failed.add(tid)
    else:
        passed.add(tid)
passed -= failed
missing = sorted(stable - passed)
# tests that spawn `cargo +nightly fuzz run` need the network to fetch the fuzz crate's dependencies: they fail
# in this sealed sandbox on the unmodified tree as well (environmental, independent of /repo's sources)
ENV = {"sozu-e2e::tests::fuzz_tests::fuzz_frame_parser", "sozu-e2e::tests::fuzz_tests::fuzz_hpack_decoder",
       "sozu-e2e::tests::fuzz_tests::fuzz_udp_flow"}
still = []
for m in missing:
    if m in ENV:
        print("  environmental (needs network):", m)
        continue
    pkg, _, name = m.partition("::")
    r = subprocess.run("cd /repo && cargo nextest run -p %s --offline -- --exact '%s' 2>&1 | tail -3" % (pkg, name),
                       shell=True, capture_output=True, text=True)
    if "1 passed" in r.stdout:
        print("  passed when re-run alone (port/timing collision in the parallel run):", m)
    else:
        still.append(m)
missing = still
print("stable_pass=%d passed_now=%d failed_now=%d stable_missing=%d" % (len(stable), len(passed), len(failed), len(missing)))
for m in missing[:50]:
    print("  MISSING/FAILED:", m)
print("failed (any):", sorted(failed))
sys.exit(1 if missing else 0)
