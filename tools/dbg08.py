import sys; sys.path.insert(0,'/verif/rules')
import facts, mir, C08, engine
F=mir.Facts(facts.facts_dir('Q'))
sp=C08.WorkerSpec(F); eng=engine.Engine(F,sp); sp.prepare(eng)
fn=sys.argv[1]; V=sys.argv[2]; want=tuple(int(x) for x in sys.argv[3].split(','))
b=F.body(fn)
res=eng.explore(b,V); print(res)
for l in eng.witness(fn,V,want): print(l)
print(set(eng.notes))
