//! Compile-time witnesses (template T11 / T6). A violated relation or a field that became writable from
//! outside its crate makes `cargo +nightly test --doc` / `cargo +nightly check` of this crate fail.
//! Every `compile_fail` witness is paired with a compiling twin that differs only in the offending line,
//! so that a witness whose *path* is wrong cannot pass by failing to compile for another reason.

use sozu_command_lib::scm_socket::{MAX_BYTES_OUT, MAX_FDS_OUT};

/// T6 (C10): the manifest buffer can hold MAX_FDS_OUT longest-form socket addresses
/// ("[ffff:ffff:ffff:ffff:ffff:ffff:255.255.255.255%4294967295]:65535" = 58 bytes + 2 bytes of framing).
const _: () = assert!(MAX_BYTES_OUT >= 2 + MAX_FDS_OUT * (2 + 58));

/// T11 (C11): the cursor fields of the growable buffer cannot be written by a user of the crate.
///
/// twin (compiles):
/// ```no_run
/// let mut b = sozu_command_lib::buffer::growable::Buffer::with_capacity(16);
/// let _ = b.available_space();
/// ```
/// witness:
/// ```compile_fail,E0616
/// let mut b = sozu_command_lib::buffer::growable::Buffer::with_capacity(16);
/// b.end = 1 << 20;
/// ```
/// ```compile_fail,E0616
/// let mut b = sozu_command_lib::buffer::growable::Buffer::with_capacity(16);
/// b.position = 99;
/// ```
/// ```compile_fail,E0616
/// let mut b = sozu_command_lib::buffer::growable::Buffer::with_capacity(16);
/// b.capacity = 0;
/// ```
pub struct BufferCursorIsPrivate;

/// T11 (C16): the per-(cluster, ip) tracking maps of SessionManager are private; users go through
/// track_cluster_ip / untrack_all_cluster_ip.
///
/// twin (compiles):
/// ```no_run
/// fn f(s: &mut sozu_lib::server::SessionManager) { let _ = s.nb_connections; }
/// ```
/// witness:
/// ```compile_fail,E0616
/// fn f(s: &mut sozu_lib::server::SessionManager) { s.connections_per_cluster_ip.clear(); }
/// ```
pub struct ClusterIpTrackingIsPrivate;

/// T11 (C19): the UDP flow table and cap are private to the manager.
///
/// twin (compiles):
/// ```no_run
/// fn f(m: &sozu_lib::protocol::udp::manager::UdpManager) -> usize { m.flow_count() }
/// ```
/// witness:
/// ```compile_fail,E0616
/// fn f(m: &mut sozu_lib::protocol::udp::manager::UdpManager) { m.max_flows = usize::MAX; }
/// ```
pub struct UdpCapIsPrivate;
